SPECIFICATION Spec
CONSTANTS
  T = 4
  C = 2
  K = 2
  Vals = {0, 1, 2}
  Shifts = {1, 3}
INVARIANT TranslationInvariant
INVARIANT DenominatorsAgree
