SPECIFICATION FairSpec
CONSTANTS
  K = 4
  MaxP = 3
  Rounds = 2
  MaxFaults = 1
  FixedCode = TRUE
INVARIANT ResultBelongsToItsCluster
INVARIANT CompletedRoundsAreRight
INVARIANT FailureRaises
INVARIANT ErrorMeansNoReturn
INVARIANT AtMostNprocRunning
INVARIANT NoWorkerLeft
PROPERTY Terminates
