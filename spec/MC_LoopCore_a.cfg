SPECIFICATION Spec
CONSTANTS
  CoreConfigs <- CfgA
INVARIANT Bounded
INVARIANT EarlyStopIsFixpoint
INVARIANT LimitExit
PROPERTY RepopRule
PROPERTY OnlyRelabelAndRepopChangeLabels
PROPERTY PrevIsLastRoundsLabelling
