SPECIFICATION Spec
CONSTANTS
  T = 5
  K = 2
  Vals = {0,1,2}
  Betas = {0,1}
  VectorBeta = FALSE
INVARIANT DPInvariant
INVARIANT Optimal
INVARIANT OracleAgrees
PROPERTY Refines
