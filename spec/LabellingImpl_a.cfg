SPECIFICATION Spec
CONSTANTS
  T = 2
  K = 3
  Vals = {0,1,2}
  Betas = {0,1,2}
  VectorBeta = TRUE
INVARIANT DPInvariant
INVARIANT Optimal
INVARIANT OracleAgrees
PROPERTY Refines
