SPECIFICATION Spec
CONSTANTS
  NP = 2
  K = 2
  MaxOps = 4
  Raw = FALSE
INVARIANT Partition
INVARIANT DeepCopyIsolates
PROPERTY InputsUntouched
