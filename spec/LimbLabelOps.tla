--------------------------- MODULE LimbLabelOps ---------------------------
(* LabelOps over two-limb integers: the cost of a label sequence and the minimum over all K^T
   sequences by the forward dynamic programme (the one TLC proves equal to brute force on small
   integer instances in Labelling.tla).  Used on quantised float tables from full runs.        *)
EXTENDS Limb, TLC

RECURSIVE LPathCostAcc(_, _, _, _, _)
LPathCostAcc(c, b, L, i, acc) ==
    IF i > Len(L) THEN acc
    ELSE LPathCostAcc(c, b, L, i + 1,
                      LAdd(LAdd(acc, c[i][L[i] + 1]),
                           IF i > 1 /\ L[i - 1] # L[i] THEN b[i - 1] ELSE LZero))
LTotalCost(c, b, L) == LPathCostAcc(c, b, L, 1, LZero)

RECURSIVE LSwitchAcc(_, _, _, _)
LSwitchAcc(b, L, i, acc) ==
    IF i > Len(L) THEN acc
    ELSE LSwitchAcc(b, L, i + 1, IF L[i - 1] # L[i] THEN LAdd(acc, b[i - 1]) ELSE acc)
LSwitchCost(b, L) == IF Len(L) < 2 THEN LZero ELSE LSwitchAcc(b, L, 2, LZero)

LDPRow(prev, crow, bi, K) ==
    TLCEval([k \in 1..K |->
        LAdd(crow[k], LSeqMin([j \in 1..K |-> IF j = k THEN prev[j] ELSE LAdd(prev[j], bi)]))])
RECURSIVE LForwardAcc(_, _, _, _, _)
LForwardAcc(c, b, K, i, row) ==
    IF i > Len(c) THEN row
    ELSE LForwardAcc(c, b, K, i + 1, LDPRow(row, c[i], b[i - 1], K))
LMinCostDP(c, b, K) == LSeqMin(LForwardAcc(c, b, K, 2, [k \in 1..K |-> c[1][k]]))
=============================================================================
