SPECIFICATION Spec
CONSTANTS
  MaxN = 2
  MaxW = 2
  SVals <- SValsAsym
  LamVals = {0,1,2}
  Rhos = {1}
  Symmetric = FALSE
  ScalarForm = FALSE
INVARIANT SubgradientOptimal
INVARIANT SignConsistent
INVARIANT ScalarEqualsConstantMatrix
