SPECIFICATION Spec
CONSTANTS
  MaxN = 2
  MaxW = 3
  SVals <- SValsSmall
  LamVals = {0,1,2}
  Rhos = {1,2}
  Symmetric = TRUE
  ScalarForm = FALSE
INVARIANT SubgradientOptimal
INVARIANT SignConsistent
INVARIANT ScalarEqualsConstantMatrix
