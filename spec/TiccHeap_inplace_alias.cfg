SPECIFICATION HSpec
CONSTANTS
  NP = 3
  K = 2
  MaxOps = 0
  Raw = FALSE
  Limit = 3
  CopyPrev = FALSE
  SetterInPlace = TRUE
PROPERTY RefinesCore
