SPECIFICATION Spec
CONSTANTS
  K = 5
  M = 2
  MaxSize = 8
INVARIANT NoPopLast
INVARIANT DonorNeverStarved
INVARIANT PostOK
INVARIANT ErrOK
INVARIANT MatchesWhat
PROPERTY Refines
