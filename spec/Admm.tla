------------------------------- MODULE Admm -------------------------------
(* Control flow of the ADMM solver (admm/solver.py: run_admm_optimization): which iterate is
   returned, when the stopping rule is evaluated, what the adaptive-rho callback may do.

   Iterates are abstract tokens <<"x", i>>, <<"z", i>>, <<"u", i>> (flat: no history inside); the numeric content of
   one iteration is the business of ZUpdate.tla (exact) and of the observations O3..O6 (DESIGN 4.3).
   Checked: the solver returns the X of the LAST iteration it ran; the stopping rule is never
   evaluated at iteration 0; it stops early iff both residuals were within tolerance at that
   iteration; it never exceeds its budget; the callback is consulted only after a non-converged
   check and rescales U by old/new; the caller's rho is not the object that is updated.          *)
EXTENDS Integers, Sequences, FiniteSets, TLC
CONSTANTS MaxIt, RhoVals, HasCallback
VARIABLES it, pc, x, z, zold, u, rho, callerRho, conv, lastCheck, ret, iters
vars == <<it, pc, x, z, zold, u, rho, callerRho, conv, lastCheck, ret, iters>>
None == <<>>

Init == /\ it = 0 /\ pc = IF MaxIt = 0 THEN "ret" ELSE "x"
        /\ x = <<"x0">> /\ z = <<"z0">> /\ zold = None /\ u = <<"u0">>
        /\ rho \in RhoVals /\ callerRho = rho
        /\ conv = FALSE /\ lastCheck = None /\ ret = None /\ iters = 0

XUpdate == /\ pc = "x"
           /\ zold' = z /\ x' = <<"x", it>>                       \* prox of (z - u) with the current rho
           /\ iters' = it + 1 /\ pc' = "z"
           /\ UNCHANGED <<it, z, u, rho, callerRho, conv, lastCheck, ret>>
ZUpd == /\ pc = "z" /\ z' = <<"z", it>> /\ pc' = "u"
        /\ UNCHANGED <<it, x, zold, u, rho, callerRho, conv, lastCheck, ret, iters>>
UUpd == /\ pc = "u" /\ u' = <<"u", it>>                            \* u + x - z
        /\ pc' = IF it > 0 THEN "check" ELSE "next"
        /\ UNCHANGED <<it, x, z, zold, rho, callerRho, conv, lastCheck, ret, iters>>
Check(rpOk, rdOk) ==
    /\ pc = "check"
    /\ lastCheck' = [it |-> it, rp |-> rpOk, rd |-> rdOk, x |-> x, z |-> z, zold |-> zold, u |-> u, rho |-> rho]
    /\ conv' = (rpOk /\ rdOk)
    /\ pc' = IF rpOk /\ rdOk THEN "ret" ELSE IF HasCallback THEN "rho" ELSE "next"
    /\ UNCHANGED <<it, x, z, zold, u, rho, callerRho, ret, iters>>
RhoUpdate(newRho) ==
    /\ pc = "rho"
    /\ u' = <<"u_rescaled", it>> /\ rho' = newRho /\ pc' = "next"
    /\ UNCHANGED <<it, x, z, zold, callerRho, conv, lastCheck, ret, iters>>
(* one whole iteration as a single step (how the trace specification sees it), at index j *)
IterAt(j) ==
    /\ zold' = z
    /\ x' = <<"x", j>>
    /\ z' = <<"z", j>>
    /\ u' = <<"u", j>>
    /\ iters' = j + 1 /\ it' = j
    /\ pc' = IF j > 0 THEN "check" ELSE "next"
    /\ UNCHANGED <<rho, callerRho, conv, lastCheck, ret>>
NextIter == /\ pc = "next"
            /\ IF it + 1 < MaxIt THEN it' = it + 1 /\ pc' = "x" ELSE it' = it /\ pc' = "ret"
            /\ UNCHANGED <<x, z, zold, u, rho, callerRho, conv, lastCheck, ret, iters>>
Return == /\ pc = "ret" /\ ret = None /\ ret' = x /\ pc' = "done"
          /\ UNCHANGED <<it, x, z, zold, u, rho, callerRho, conv, lastCheck, iters>>
Next == XUpdate \/ ZUpd \/ UUpd \/ (\E a, b \in BOOLEAN : Check(a, b))
        \/ (\E r \in RhoVals : RhoUpdate(r)) \/ NextIter \/ Return
Spec == Init /\ [][Next]_vars

ReturnsLastX == pc = "done" => (ret = x /\ (iters > 0 => ret[1] = "x" /\ ret[2] = iters - 1))
NeverChecksAtIterationZero == lastCheck # None => lastCheck.it > 0
WithinBudget == iters <= MaxIt /\ it < MaxIt + 1
ConvergedIffBothResiduals == pc = "done" =>
    (conv <=> (lastCheck # None /\ lastCheck.rp /\ lastCheck.rd /\ lastCheck.it = iters - 1))
EarlyStopOnlyWhenConverged == pc = "done" /\ iters < MaxIt => conv
CheckSeesThisIterationsIterates == lastCheck # None =>
    (lastCheck.x[1] = "x" /\ lastCheck.x[2] = lastCheck.it /\ lastCheck.z[2] = lastCheck.it
     /\ lastCheck.zold # lastCheck.z)
CallerRhoUntouched == callerRho \in RhoVals
=============================================================================
