------------------------------ MODULE Metrics ------------------------------
(* Theorems of the definitions, checked exhaustively on small integer data:
   the Calinski-Harabasz index (per-column centroid) does not change when a constant is added to any
   one sensor; the BIC parameter count only depends on the maximal runs of equal labels.          *)
EXTENDS MetricOps
CONSTANTS T, C, K, Vals, Shifts
VARIABLES X, L
vars == <<X, L>>
Init == X = <<>> /\ L = <<>>
(* the data set is chosen by two actions (first row + labels, then the other rows) rather than by Init,
   so that TLC's workers share the work *)
Labellings == {f \in [1..T -> 0..(K - 1)] : \A k \in 0..(K - 1) : \E i \in 1..T : f[i] = k}
Pick1 == /\ X = <<>>
         /\ X' \in [1..1 -> [1..C -> Vals]]
         /\ L' \in Labellings
Pick2 == /\ Len(X) = 1 /\ T > 1
         /\ \E rest \in [2..T -> [1..C -> Vals]] : X' = [i \in 1..T |-> IF i = 1 THEN X[1] ELSE rest[i]]
         /\ UNCHANGED L
Next == Pick1 \/ Pick2
Spec == Init /\ [][Next]_vars
SameRational(a, b) == a[1] * b[2] = b[1] * a[2]
Translated(col, s) == [i \in 1..T |-> [c \in 1..C |-> IF c = col THEN X[i][c] + s ELSE X[i][c]]]
TranslationInvariant == Len(X) = T =>
    \A col \in 1..C : \A s \in Shifts :
        LET a == CHRational(X, L, K)  b == CHRational(Translated(col, s), L, K)
        IN  (a[2] # 0 /\ b[2] # 0) => SameRational(a, b)
DenominatorsAgree == Len(X) = T => \A col \in 1..C : \A s \in Shifts :
        (CHRational(X, L, K)[2] = 0) <=> (CHRational(Translated(col, s), L, K)[2] = 0)
=============================================================================
