SPECIFICATION Spec
CONSTANTS
  W = 2
  N = 2
  MaxSeries = 3
  MaxExtra = 2
  KK = 2
INVARIANT NoRowMixesSeries
INVARIANT RowsAreWindows
INVARIANT PadSplitRestores
INVARIANT MaskZerosExactlyAtBoundaries
