---------------------------- MODULE LabelOps ----------------------------
(* Pure operators about label sequences and their cost.  No variables: shared by the
   WHAT specification (Labelling), the HOW specification (LabellingImpl), the joint-series
   theorem (Boundaries), the main-loop specification (TiccLoop) and every trace module.

   Conventions (they match the JSON the harness writes):
     c  cost table, a sequence of T rows, each a sequence of K integers; c[i][k+1] is the
        cost of giving point i (1-based) the label k (0-based)
     b  switching cost per consecutive pair: b[i] prices the pair (i, i+1); Len(b) >= T-1
     L  a label sequence, Len(L) = T, L[i] \in 0..K-1                                   *)
EXTENDS Integers, Sequences, FiniteSets, TLC

Min2(a, b) == IF a <= b THEN a ELSE b
Max2(a, b) == IF a >= b THEN a ELSE b
Abs(a) == IF a < 0 THEN -a ELSE a

RECURSIVE SeqMinAcc(_, _, _)
SeqMinAcc(s, i, acc) == IF i > Len(s) THEN acc ELSE SeqMinAcc(s, i + 1, Min2(acc, s[i]))
SeqMin(s) == SeqMinAcc(s, 2, s[1])

RECURSIVE SeqSumAcc(_, _, _)
SeqSumAcc(s, i, acc) == IF i > Len(s) THEN acc ELSE SeqSumAcc(s, i + 1, acc + s[i])
SeqSum(s) == SeqSumAcc(s, 1, 0)

(* first (lowest) index holding the minimum: what numpy.argmin returns *)
RECURSIVE FirstArgMinAcc(_, _, _)
FirstArgMinAcc(s, i, best) ==
    IF i > Len(s) THEN best
    ELSE FirstArgMinAcc(s, i + 1, IF s[i] < s[best] THEN i ELSE best)
FirstArgMin(s) == FirstArgMinAcc(s, 2, 1)

(* ---- cost of one label sequence ---- *)
RECURSIVE PathCostAcc(_, _, _, _, _)
PathCostAcc(c, b, L, i, acc) ==
    IF i > Len(L) THEN acc
    ELSE PathCostAcc(c, b, L, i + 1,
                     acc + c[i][L[i] + 1]
                         + (IF i > 1 /\ L[i - 1] # L[i] THEN b[i - 1] ELSE 0))
TotalCost(c, b, L) == PathCostAcc(c, b, L, 1, 0)

RECURSIVE SwitchCostAcc(_, _, _, _)
SwitchCostAcc(b, L, i, acc) ==
    IF i > Len(L) THEN acc
    ELSE SwitchCostAcc(b, L, i + 1, acc + (IF L[i - 1] # L[i] THEN b[i - 1] ELSE 0))
SwitchCost(b, L) == IF Len(L) < 2 THEN 0 ELSE SwitchCostAcc(b, L, 2, 0)

InRange(L, T, K) == Len(L) = T /\ \A i \in 1..T : L[i] \in 0..(K - 1)

(* ---- minimum over all K^T label sequences, by brute force (small instances) ---- *)
AllLabellings(T, K) == [1..T -> 0..(K - 1)]
MinCostBF(c, b, T, K) ==
    LET S == {TotalCost(c, b, L) : L \in AllLabellings(T, K)}
    IN  CHOOSE m \in S : \A x \in S : m <= x

(* ---- the same minimum by a forward dynamic programme that does NOT use the
        implementation's shortcut (it takes the full minimum over predecessors);
        TLC checks MinCostDP = MinCostBF exhaustively on the small instances ---- *)
(* TLCEval forces the row: TLC's function constructors are lazy and a chain of T lazy rows
   would be re-evaluated K^T times *)
DPRow(prev, crow, bi, K) ==
    TLCEval([k \in 1..K |->
        crow[k] + SeqMin([j \in 1..K |-> prev[j] + (IF j = k THEN 0 ELSE bi)])])
RECURSIVE ForwardAcc(_, _, _, _, _)
ForwardAcc(c, b, K, i, row) ==
    IF i > Len(c) THEN row
    ELSE ForwardAcc(c, b, K, i + 1, DPRow(row, c[i], b[i - 1], K))
MinCostDP(c, b, T, K) == SeqMin(ForwardAcc(c, b, K, 2, [k \in 1..K |-> c[1][k]]))

(* ---- cost-to-go: minimum cost of points i+1..T given that point i carries label k ---- *)
SuffixCostToGo(c, b, T, K, i, k) ==
    IF i = T THEN 0
    ELSE LET S == {TotalCost([j \in 1..(T - i) |-> c[i + j]],
                             [j \in 1..(T - i) |-> IF i + j <= Len(b) THEN b[i + j] ELSE 0],
                             L)
                   + (IF L[1] # k THEN b[i] ELSE 0) : L \in AllLabellings(T - i, K)}
         IN  CHOOSE m \in S : \A x \in S : m <= x
=============================================================================
