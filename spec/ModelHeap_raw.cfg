SPECIFICATION Spec
CONSTANTS
  NP = 3
  K = 2
  MaxOps = 3
  Raw = TRUE
INVARIANT Partition
