SPECIFICATION Spec
CONSTANTS
  Configs <- CfgM2
  FixedCode = TRUE
INVARIANT C13_Partition
INVARIANT C09_Bounded
INVARIANT C09_EarlyStopIsFixpoint
INVARIANT C09_LimitExit
INVARIANT C09_ReturnsLastRound
INVARIANT C09_AtLeastOneRound
INVARIANT C09_FitBeforeRelabel
INVARIANT C12_FittedToMembers
INVARIANT C12_MrfFromThisRoundsStats
INVARIANT C14_GatherByIndex
INVARIANT C20_NoResultOnError
INVARIANT C20_ErrorRaises
INVARIANT C20_NoPartial
PROPERTY C09_RepopRule
INVARIANT C20_NoLeak
PROPERTY RefinesCore
