---------------------------- MODULE IndexMaps ----------------------------
(* Design-level theorems behind C11, evaluated exhaustively by TLC for every size in range, plus
   a call-history variable: the helpers are memoised (functools.cache) and the property demands
   that a call's answer never depends on which calls came before.
   The state machine issues calls in any order; `answer` is a function of the arguments only. *)
EXTENDS IndexOps, TLC
CONSTANTS MaxN, NN, WW,      \* compression sizes 1..MaxN; class maps for N <= NN, W <= WW
          TrackHistory     \* FALSE: forget the history (large ranges); TRUE: every call order
VARIABLES history, last
vars == <<history, last>>

Shapes == (1..NN) \X (1..WW)
Init == history = {} /\ last = <<>>
Call == \E s \in Shapes :
          /\ s \notin history
          /\ history' = IF TrackHistory THEN history \cup {s} ELSE {}
          /\ last' = s
Next == Call
Spec == Init /\ [][Next]_vars

ClosedFormIsRank == \A n \in 1..MaxN : \A r \in 0..(n - 1) : \A c \in r..(n - 1) :
                        RankClosed(n, r, c) = RankByDef(n, r, c)
RankIsBijection == \A n \in 1..MaxN :
    {RankClosed(n, r, c) : <<r, c>> \in {p \in (0..(n - 1)) \X (0..(n - 1)) : p[1] <= p[2]}}
        = 0..(TriSize(n) - 1)

(* for the shape called last: every upper-triangle cell lies in exactly one class, each class has
   W-b positions, and positions of a class are equal under block-Toeplitz structure *)
ClassesPartition ==
    last # <<>> =>
      LET N == last[1]  W == last[2]  n == N * W
      IN  /\ \A R \in 0..(n - 1) : \A C \in R..(n - 1) :
                LET k == ClassOf(N, R, C)
                IN  /\ k \in Classes(N, W)
                    /\ \E i \in 1..(W - k[1]) : ClassPositions(N, W, k[1], k[2], k[3])[i] = <<R, C>>
          /\ \A k \in Classes(N, W) :
                \A i \in 1..(W - k[1]) :
                    LET p == ClassPositions(N, W, k[1], k[2], k[3])[i]
                    IN  p[1] <= p[2] /\ p[2] < n /\ ClassOf(N, p[1], p[2]) = k
=============================================================================
