----------------------------- MODULE ModelHeap -----------------------------
(* ModelState / ClusterParameters (containers/model_state.py) as a heap of mutable objects, with the
   copy and assignment operations the phases of the algorithm are built from (property C13).

   Objects:  lists (label lists, member lists) and arrays (fitted statistics), all addressed by id in
   `heap`; cluster objects `cl[c] = [mem, stat, mrf]` hold references; a model state
   `st[h] = [lab, cls]` holds a reference to its label list and its OWN list of cluster references.
   What matters is aliasing: ModelState.shallow_copy shares the label list and the cluster OBJECTS,
   the point_labels setter rebinds the member list INSIDE the shared cluster objects, so
   "shallow_copy; assign labels" corrupts the source - which is why every phase deep-copies (or
   re-creates) the clusters before it assigns.  TLC checks that the four phases, built from these
   operations exactly as the code builds them, keep every state a partition and never alter the
   state they were given; with the raw operations enabled (Raw = TRUE) it exhibits the corruption. *)
EXTENDS Integers, Sequences, FiniteSets, TLC

CONSTANTS NP, K, MaxOps, Raw       \* points, clusters, bound on operations, raw operations enabled
VARIABLES heap, cl, st, nxt, ops, lastDeep
vars == <<heap, cl, st, nxt, ops, lastDeep>>

AllL == [1..NP -> 0..(K - 1)]
RECURSIVE MemAcc(_, _, _, _)
MemAcc(L, k, p, acc) == IF p > Len(L) THEN acc
                        ELSE MemAcc(L, k, p + 1, IF L[p] = k THEN Append(acc, p - 1) ELSE acc)
Members(L, k) == MemAcc(L, k, 1, <<>>)              \* sorted 0-based point ids carrying label k

Put(hp, id, v) == [i \in (DOMAIN hp) \cup {id} |-> IF i = id THEN v ELSE hp[i]]

(* ---- the point_labels setter + _update_cluster_membership + the member_points setter ---- *)
RECURSIVE UpdMem(_, _, _, _, _, _)
UpdMem(hp, c, n, cls, L, k) ==          \* returns <<heap, cl, nxt>>
    IF k > Len(cls) THEN <<hp, c, n>>
    ELSE LET cid == cls[k]
             nm  == Members(L, k - 1)
         IN  IF Len(nm) = 0 \/ nm # hp[c[cid].mem]
             THEN UpdMem(Put(hp, n, nm), [c EXCEPT ![cid].mem = n], n + 1, cls, L, k + 1)
             ELSE UpdMem(hp, c, n, cls, L, k + 1)               \* equal value: old list object kept
SetLabelsEff(hp, c, s, n, h, L) ==      \* returns <<heap, cl, st, nxt>>
    IF s[h].lab # 0 /\ hp[s[h].lab] = L THEN <<hp, c, s, n>>    \* "only if different"
    ELSE LET hp1 == Put(hp, n, L)
             s1  == [s EXCEPT ![h].lab = n]
             r   == UpdMem(hp1, c, n + 1, s[h].cls, L, 1)
         IN  <<r[1], r[2], s1, r[3]>>

(* ---- copies ---- *)
ShallowEff(s, h) == Append(s, [lab |-> s[h].lab, cls |-> s[h].cls])    \* new list of the SAME clusters
RECURSIVE DeepClusters(_, _, _, _, _, _)
DeepClusters(hp, c, n, cls, k, acc) ==   \* deep_copy of each cluster: returns <<heap, cl, nxt, newcls>>
    IF k > Len(cls) THEN <<hp, c, n, acc>>
    ELSE LET o == c[cls[k]]
             hp1 == Put(Put(Put(hp, n, hp[o.mem]), n + 1, hp[o.stat]), n + 2, hp[o.mrf])
             nc  == [mem |-> n, stat |-> n + 1, mrf |-> n + 2]
             c1  == [i \in (DOMAIN c) \cup {n + 3} |-> IF i = n + 3 THEN nc ELSE c[i]]
         IN  DeepClusters(hp1, c1, n + 4, cls, k + 1, Append(acc, n + 3))
(* cluster.shallow_copy(): a NEW cluster object with a NEW (re-sorted) member list, sharing arrays;
   the phase then rebinds one array attribute of the copy to a freshly computed array *)
RECURSIVE FreshClusters(_, _, _, _, _, _, _)
FreshClusters(hp, c, n, cls, slot, k, acc) ==
    IF k > Len(cls) THEN <<hp, c, n, acc>>
    ELSE LET o == c[cls[k]]
             hp1 == Put(Put(hp, n, hp[o.mem]), n + 1, n + 1)          \* fresh array content = its own id
             nc  == IF slot = "stat" THEN [mem |-> n, stat |-> n + 1, mrf |-> o.mrf]
                                     ELSE [mem |-> n, stat |-> o.stat, mrf |-> n + 1]
             c1  == [i \in (DOMAIN c) \cup {n + 2} |-> IF i = n + 2 THEN nc ELSE c[i]]
         IN  FreshClusters(hp1, c1, n + 3, cls, slot, k + 1, Append(acc, n + 2))

Handles == 1..Len(st)
CanOp == ops < MaxOps
Bump == ops' = ops + 1

(* ---- raw operations ---- *)
SetLabels(h, L) ==
    /\ CanOp /\ h \in Handles
    /\ LET r == SetLabelsEff(heap, cl, st, nxt, h, L)
       IN  heap' = r[1] /\ cl' = r[2] /\ st' = r[3] /\ nxt' = r[4]
    /\ Bump /\ lastDeep' = <<>>
ShallowCopy(h) ==
    /\ CanOp /\ h \in Handles
    /\ st' = ShallowEff(st, h) /\ Bump /\ lastDeep' = <<>> /\ UNCHANGED <<heap, cl, nxt>>
DeepCopy(h) ==
    /\ CanOp /\ h \in Handles
    /\ LET r  == DeepClusters(heap, cl, nxt, st[h].cls, 1, <<>>)
           lb == r[3]
       IN  /\ heap' = Put(r[1], lb, heap[st[h].lab]) /\ cl' = r[2] /\ nxt' = lb + 1
           /\ st' = Append(st, [lab |-> lb, cls |-> r[4]])
    /\ Bump /\ lastDeep' = <<h, Len(st) + 1>>
Mutate(id, v) ==                       \* an in-place write into a list or array object
    /\ CanOp /\ id \in DOMAIN heap
    /\ heap' = [heap EXCEPT ![id] = v]
    /\ Bump /\ UNCHANGED <<cl, st, nxt, lastDeep>>

(* ---- the four phases, composed exactly as the code composes them ---- *)
(* repopulate / predict: shallow_copy; clusters := deep copies; point_labels := new labels.
   Effect on <<heap, cl, st, nxt>>; the new state is the LAST handle of the result. *)
RelabelLikeEff(hp, c, s, n0, h, L) ==
    LET s1 == ShallowEff(s, h)
        n  == Len(s1)
        r  == DeepClusters(hp, c, n0, s[h].cls, 1, <<>>)
        s2 == [s1 EXCEPT ![n].cls = r[4]]
    IN  SetLabelsEff(r[1], r[2], s2, r[3], n, L)
PhaseRelabelLike(h, L) ==
    /\ CanOp /\ h \in Handles
    /\ LET q == RelabelLikeEff(heap, cl, st, nxt, h, L)
       IN  heap' = q[1] /\ cl' = q[2] /\ st' = q[3] /\ nxt' = q[4]
    /\ Bump /\ lastDeep' = <<>>
(* statistics / optimise: shallow_copy; each cluster := its shallow copy with one array recomputed *)
FitLikeEff(hp, c, s, n0, h, slot) ==
    LET r  == FreshClusters(hp, c, n0, s[h].cls, slot, 1, <<>>)
        s1 == ShallowEff(s, h)
    IN  <<r[1], r[2], [s1 EXCEPT ![Len(s1)].cls = r[4]], r[3]>>
PhaseFitLike(h, slot) ==
    /\ CanOp /\ h \in Handles
    /\ LET q == FitLikeEff(heap, cl, st, nxt, h, slot)
       IN  heap' = q[1] /\ cl' = q[2] /\ st' = q[3] /\ nxt' = q[4]
    /\ Bump /\ lastDeep' = <<>>

InitWith(L) ==
          LET hp0 == [i \in 1..(3 * K) |-> IF i % 3 = 1 THEN <<>> ELSE i]      \* empty clusters
              c0  == [i \in (3 * K + 1)..(4 * K) |->
                         [mem |-> 3 * (i - 3 * K) - 2, stat |-> 3 * (i - 3 * K) - 1, mrf |-> 3 * (i - 3 * K)]]
              s0  == <<[lab |-> 0, cls |-> [k \in 1..K |-> 3 * K + k]]>>
              r   == SetLabelsEff(hp0, c0, s0, 4 * K + 1, 1, L)
          IN  heap = r[1] /\ cl = r[2] /\ st = r[3] /\ nxt = r[4] /\ ops = 0 /\ lastDeep = <<>>
Init == \E L \in AllL : InitWith(L)

RawSetLabels == Raw /\ \E h \in Handles : \E L \in AllL : SetLabels(h, L)
RawShallowCopy == Raw /\ \E h \in Handles : ShallowCopy(h)
Next == \/ \E h \in Handles : \E L \in AllL : PhaseRelabelLike(h, L)
        \/ \E h \in Handles : PhaseFitLike(h, "stat") \/ PhaseFitLike(h, "mrf")
        \/ \E h \in Handles : DeepCopy(h)
        \/ RawSetLabels \/ RawShallowCopy
Spec == Init /\ [][Next]_vars

(* ---- projection of a state: what C13 talks about ---- *)
LabelsOf(h) == heap[st[h].lab]
MemOf(h, k) == heap[cl[st[h].cls[k]].mem]
Proj(h) == [labels |-> LabelsOf(h),
            members |-> [k \in 1..K |-> MemOf(h, k)],
            stat |-> [k \in 1..K |-> heap[cl[st[h].cls[k]].stat]],
            mrf |-> [k \in 1..K |-> heap[cl[st[h].cls[k]].mrf]]]
Reach(h) == {st[h].lab} \cup UNION {{cl[c].mem, cl[c].stat, cl[c].mrf} : c \in {st[h].cls[k] : k \in 1..K}}

Partition == \A h \in Handles : /\ Len(st[h].cls) = K
                                /\ \A k \in 1..K : MemOf(h, k) = Members(LabelsOf(h), k - 1)
(* no operation alters the projection of a state that already existed (phases create new states) *)
InputsUntouched == [][\A h \in Handles : Proj(h)' = Proj(h)]_vars
DeepCopyIsolates == lastDeep # <<>> => Reach(lastDeep[1]) \cap Reach(lastDeep[2]) = {}
=============================================================================
