----------------------------- MODULE MetricOps -----------------------------
(* Exact arithmetic for the quality measures and the Gaussian log-density on the EXACT FAMILY
   (C05, C16, C17):
     Theta = L * diag(2^e) * L^T   with L unit lower-triangular, integer, two sub-diagonal bands
     => log det Theta = (sum e) * ln 2   and   (x-mu)^T Theta (x-mu) = sum_i 2^(e_i) * y_i^2,
        y = L^T (x - mu)  (all integers).
   Transcendental constants enter as quantised constants at scale 2^20 with their rounding slack. *)
EXTENDS Limb, FiniteSets, TLC
LN2Q   == 726817        \* round(ln 2      * 2^20)
LN2PIQ == 1927154       \* round(ln(2 pi)  * 2^20) = round(1927153.78)

Pow2(k) == 2 ^ k
(* y_i = d_i + band1[i] d_(i+1) + band2[i] d_(i+2) *)
YOf(d, b1, b2) == [i \in 1..Len(d) |->
                     d[i] + (IF i + 1 <= Len(d) THEN b1[i] * d[i + 1] ELSE 0)
                          + (IF i + 2 <= Len(d) THEN b2[i] * d[i + 2] ELSE 0)]
(* quadratic form * 2^20 as a limb; every e_i in -20..22 and y_i^2 * 2^|e_i| < 2^30 *)
QuadTerm(y, e) == IF e >= 0 THEN <<y * y * Pow2(e), 0>> ELSE LInt(y * y * Pow2(20 + e))
RECURSIVE QuadAcc(_, _, _, _)
QuadAcc(y, e, i, acc) == IF i > Len(y) THEN acc ELSE QuadAcc(y, e, i + 1, LAdd(acc, QuadTerm(y[i], e[i])))
QuadQ(d, b1, b2, e) == QuadAcc(YOf(d, b1, b2), e, 1, LZero)

LMulInt(a, n) ==          \* a * n for 0 <= n < 2^20 (two LScale steps keep lo * k < 2^31)
    LAdd(LScale(LScale(a, n \div 1024), 1024), LScale(a, n % 1024))
LMulSigned(a, n) == IF n >= 0 THEN LMulInt(a, n) ELSE LNeg(LMulInt(a, -n))

RECURSIVE SumSeqAcc2(_, _, _)
SumSeqAcc2(s, i, acc) == IF i > Len(s) THEN acc ELSE SumSeqAcc2(s, i + 1, acc + s[i])
SumInts(s) == SumSeqAcc2(s, 1, 0)

(* 2 * ll * 2^20 expected:  sumE ln2 - quad - NW ln(2 pi) *)
TwiceLLQ(d, b1, b2, e) ==
    LSub(LSub(LMulSigned(LInt(LN2Q), SumInts(e)), QuadQ(d, b1, b2, e)), LMulInt(LInt(LN2PIQ), Len(d)))

(* ---- BIC: parameter count by maximal runs of equal labels ---- *)
RECURSIVE RunsAcc(_, _, _, _)
RunsAcc(L, pc, i, acc) ==
    IF i > Len(L) THEN acc
    ELSE RunsAcc(L, pc, i + 1, IF i = 1 \/ L[i] # L[i - 1] THEN acc + pc[L[i] + 1] ELSE acc)
ParamTotal(L, pc) == RunsAcc(L, pc, 1, 0)

(* ---- Calinski-Harabasz on integer data, exact rational <<num, den>> ----
   X: sequence of T rows of C integers; L: labels 0..K-1 (every cluster non-empty)             *)
ColSum(X, S, c) == LET RECURSIVE A(_, _) A(i, acc) == IF i > Len(X) THEN acc
                                                      ELSE A(i + 1, IF i \in S THEN acc + X[i][c] ELSE acc)
                   IN  A(1, 0)
SqSum(X, S) == LET RECURSIVE A(_, _) A(i, acc) ==
                       IF i > Len(X) THEN acc
                       ELSE A(i + 1, IF i \in S THEN acc + SumInts([c \in 1..Len(X[i]) |-> X[i][c] * X[i][c]]) ELSE acc)
               IN  A(1, 0)
Members(L, k) == {i \in 1..Len(L) : L[i] = k}
(* B * (n^2 * P) and Wd * P as integers, where P = product of cluster sizes, n = T *)
ProdSizes(L, K) == LET RECURSIVE A(_, _) A(k, acc) == IF k >= K THEN acc ELSE A(k + 1, acc * Cardinality(Members(L, k)))
                   IN  A(0, 1)
CHParts(X, L, K) ==
    LET n == Len(X)  C == Len(X[1])  P == ProdSizes(L, K)
        all == 1..n
        Bk(k) == LET S == Members(L, k)  nk == Cardinality(S)
                 IN  (P \div nk) * SumInts([c \in 1..C |->
                          (n * ColSum(X, S, c) - nk * ColSum(X, all, c)) * (n * ColSum(X, S, c) - nk * ColSum(X, all, c))])
        Wk(k) == LET S == Members(L, k)  nk == Cardinality(S)
                 IN  P * SqSum(X, S) - (P \div nk) * SumInts([c \in 1..C |-> ColSum(X, S, c) * ColSum(X, S, c)])
        Bn == SumInts([k \in 1..K |-> Bk(k - 1)])          \* = B * n^2 * P
        Wn == SumInts([k \in 1..K |-> Wk(k - 1)])          \* = Wd * P
    IN  <<Bn, Wn, n>>
(* CH = [B/(K-1)] / [Wd/(T-K)] = Bn (T-K) / (n^2 Wn (K-1)) *)
CHRational(X, L, K) ==
    LET p == CHParts(X, L, K)
    IN  <<p[1] * (p[3] - K), p[3] * p[3] * p[2] * (K - 1)>>
=============================================================================
