SPECIFICATION Spec
CONSTANTS
  Configs <- CfgScriptA
  FixedCode = TRUE
