SPECIFICATION HSpec
CONSTANTS
  NP = 3
  K = 2
  MaxOps = 0
  Raw = FALSE
  Limit = 3
  CopyPrev = TRUE
  SetterInPlace = FALSE
INVARIANT HPartition
PROPERTY HInputsUntouched
PROPERTY SavedLabellingIsStable
PROPERTY RefinesCore
