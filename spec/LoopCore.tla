------------------------------ MODULE LoopCore ------------------------------
(* The control skeleton of the TICC main loop and nothing else: which labelling is current, which one
   the stopping rule compares with, the round counter and why the loop ended.  Two more detailed
   specifications are checked (TLC, PROPERTY) to implement it under a refinement mapping:

     TiccLoop  (MC_TiccLoop!RefinesCore)  - the loop with provenance and the worker pool: pool steps,
               statistics, submission and all but the last gather are stuttering steps of LoopCore;
     TiccHeap  (TiccHeap!RefinesCore)     - the loop over the heap of mutable list / array / cluster
               objects of ModelHeap: `prev` is what the saved list OBJECT holds now, so an in-place
               change of a list the loop still refers to breaks the refinement.

   The C09 statements about control flow are invariants / action properties here, so they are inherited
   by both refinements.                                                                           *)
EXTENDS Integers, Sequences, FiniteSets

CONSTANT CoreConfigs          \* set of records [T, K, limit]
VARIABLES ccfg, cpc, crnd, clab, cprev, cexit
cvars == <<ccfg, cpc, crnd, clab, cprev, cexit>>

Labellings == [1..ccfg.T -> 0..(ccfg.K - 1)]
Small(L) == \E k \in 0..(ccfg.K - 1) : Cardinality({p \in 1..ccfg.T : L[p] = k}) < 2
RepopDue == crnd > 0 /\ Small(clab)

CInit == ccfg \in CoreConfigs /\ cpc = "call" /\ crnd = 0 /\ clab = <<>> /\ cprev = <<>> /\ cexit = ""
CStart(L)   == cpc = "call" /\ L \in Labellings /\ clab' = L /\ cpc' = "top"
               /\ UNCHANGED <<ccfg, crnd, cprev, cexit>>
CRepop(L2)  == cpc = "top" /\ RepopDue /\ L2 \in Labellings /\ clab' = L2 /\ cpc' = "fit"
               /\ UNCHANGED <<ccfg, crnd, cprev, cexit>>
CSkip       == cpc = "top" /\ ~RepopDue /\ cpc' = "fit" /\ UNCHANGED <<ccfg, crnd, clab, cprev, cexit>>
CFit        == cpc = "fit" /\ cpc' = "relabel" /\ UNCHANGED <<ccfg, crnd, clab, cprev, cexit>>
CRelabel(L2) == cpc = "relabel" /\ L2 \in Labellings /\ clab' = L2 /\ cpc' = "decide"
               /\ UNCHANGED <<ccfg, crnd, cprev, cexit>>
CConverge   == cpc = "decide" /\ cprev = clab /\ cexit' = "converged" /\ cpc' = "done"
               /\ UNCHANGED <<ccfg, crnd, clab, cprev>>
CContinue   == cpc = "decide" /\ cprev # clab /\ crnd + 1 < ccfg.limit
               /\ cprev' = clab /\ crnd' = crnd + 1 /\ cpc' = "top" /\ UNCHANGED <<ccfg, clab, cexit>>
CLimit      == cpc = "decide" /\ cprev # clab /\ crnd + 1 >= ccfg.limit
               /\ cprev' = clab /\ cexit' = "limit" /\ cpc' = "done" /\ UNCHANGED <<ccfg, crnd, clab>>
CFail       == cpc \notin {"call", "done", "failed"} /\ cpc' = "failed"
               /\ UNCHANGED <<ccfg, crnd, clab, cprev, cexit>>

CNext == \/ \E L \in Labellings : CStart(L) \/ CRepop(L) \/ CRelabel(L)
         \/ CSkip \/ CFit \/ CConverge \/ CContinue \/ CLimit \/ CFail
Spec == CInit /\ [][CNext]_cvars

(* ---- what C09 says about control flow ---- *)
Bounded == crnd < ccfg.limit
EarlyStopIsFixpoint == cexit = "converged" => cprev = clab
LimitExit == cexit = "limit" => crnd + 1 = ccfg.limit
RepopRule == [][(cpc = "top" /\ clab' # clab) => RepopDue]_cvars
OnlyRelabelAndRepopChangeLabels == [][clab' # clab => cpc \in {"call", "top", "relabel"}]_cvars
PrevIsLastRoundsLabelling == [][cprev' # cprev => (cpc = "decide" /\ cprev' = clab)]_cvars
=============================================================================
