SPECIFICATION Spec
CONSTANTS
  MaxN = 1
  NN = 10
  WW = 14
  TrackHistory = FALSE
INVARIANT ClassesPartition
