SPECIFICATION Spec
CONSTANTS
  MaxSeries = 3
  MaxLen = 2
  K = 2
  Vals = {0,1}
  Beta = 1
  Shift = 0
INVARIANT Decomposes
INVARIANT OptimaRestrict
