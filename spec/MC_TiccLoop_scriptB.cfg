SPECIFICATION Spec
CONSTANTS
  Configs <- CfgScriptB
  FixedCode = TRUE
