SPECIFICATION Spec
CONSTANTS
  NPoints = 4
  NClusters = 2
  MaxThreads = 3
  SharedAcc = FALSE
INVARIANT TableIndependentOfSchedule
INVARIANT NoCellWrittenTwice
INVARIANT EveryCellHasOneOwner
INVARIANT AccumulatorIndependentOfSchedule
