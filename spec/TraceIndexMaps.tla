-------------------------- MODULE TraceIndexMaps --------------------------
(* Trace specification for the index-map helpers (C11): matrix_compression.* and
   admm.unique_values.*.  A trace is one process history: the helpers are called for many sizes
   in a seed-shuffled, interleaved order (they are memoised) and every answer must be the one the
   specification gives for its arguments alone.
   RankClosed is used as the oracle; IndexMaps.tla model-checks RankClosed = RankByDef (n<=150). *)
EXTENDS IndexOps, TLC, TLCExt, Json, IOUtils
CONSTANT Enforced
ASSUME TLCSet(1, {}) /\ TLCSet(2, JsonDeserialize(IOEnv.TRACE_FILE))
Traces == TLCGet(2)
VARIABLES tid, l
vars == <<tid, l>>
Ev == Traces[tid].events[l]

Clause(pid, name, b) ==
    IF pid \notin Enforced THEN TRUE
    ELSE IF b THEN TRUE
    ELSE PrintT(<<"CLAUSE-FAIL", tid, l, pid, name>>) /\ FALSE

Init == tid \in 1..Len(Traces) /\ l = 1
IsEvent(k) == l <= Len(Traces[tid].events) /\ Ev.kind = k /\ l' = l + 1 /\ UNCHANGED tid

Lo(a, b) == IF a <= b THEN a ELSE b
Hi(a, b) == IF a <= b THEN b ELSE a

TraceCidx ==          \* _compressed_index(r, c, n) for every upper-triangle cell
    /\ IsEvent("cidx")
    /\ Clause("C11", "closed_form_index_is_row_major_rank",
              /\ Len(Ev.cells) = TriSize(Ev.n)
              /\ \A i \in 1..Len(Ev.cells) :
                    LET t == Ev.cells[i] IN t[3] = RankClosed(Ev.n, t[1], t[2]))
    /\ Clause("C11", "all_cells_covered",
              {<<Ev.cells[i][1], Ev.cells[i][2]>> : i \in 1..Len(Ev.cells)}
                 = {p \in (0..(Ev.n - 1)) \X (0..(Ev.n - 1)) : p[1] <= p[2]})

TraceTriu ==          \* _upper_triangle_indices(n)
    /\ IsEvent("triu")
    /\ Clause("C11", "triu_lists_are_row_major_upper_triangle",
              /\ Len(Ev.rows) = TriSize(Ev.n) /\ Len(Ev.cols) = TriSize(Ev.n)
              /\ \A i \in 1..Len(Ev.rows) :
                    /\ 0 <= Ev.rows[i] /\ Ev.rows[i] <= Ev.cols[i] /\ Ev.cols[i] < Ev.n
                    /\ RankClosed(Ev.n, Ev.rows[i], Ev.cols[i]) = i - 1)

TraceFullSize ==      \* _full_matrix_size(n(n+1)/2) = n
    /\ IsEvent("fullsize")
    /\ Clause("C11", "size_inversion", Ev.flat = TriSize(Ev.n) /\ Ev.out = Ev.n)

TraceCompress ==      \* compress_matrix on a symmetric token matrix
    /\ IsEvent("compress")
    /\ Clause("C11", "compress_is_row_major_upper_triangle",
              /\ Len(Ev.out) = TriSize(Ev.n)
              /\ \A i \in 1..Len(Ev.out) : Ev.out[i] = i - 1)
    /\ Clause("C19", "input_unchanged", Ev.input_same)

TraceReinflate ==     \* reinflate_matrix on a token vector (also used for the two round trips)
    /\ IsEvent("reinflate")
    /\ Clause("C11", "reinflate_is_symmetric_fill",
              /\ Len(Ev.out) = Ev.n
              /\ \A r \in 1..Ev.n : /\ Len(Ev.out[r]) = Ev.n
                                    /\ \A c \in 1..Ev.n :
                                         Ev.out[r][c] = RankClosed(Ev.n, Lo(r, c) - 1, Hi(r, c) - 1))
    /\ Clause("C19", "input_unchanged", Ev.input_same)

TraceRoundTrip ==     \* reinflate(compress(M)) = M and compress(reinflate(v)) = v, bit for bit
    /\ IsEvent("roundtrip")
    /\ Clause("C11", "compress_then_reinflate_is_identity", Ev.matrix_same)
    /\ Clause("C11", "reinflate_then_compress_is_identity", Ev.vector_same)

RECURSIVE LenSumAcc(_, _, _)
LenSumAcc(cls, i, acc) == IF i > Len(cls) THEN acc ELSE LenSumAcc(cls, i + 1, acc + Len(cls[i].comp))

TraceClasses ==       \* locations_compressed / locations_index_slices for every class of (N, W)
    /\ IsEvent("classes")
    /\ LET N == Ev.N  W == Ev.W  n == N * W  cls == Ev.classes
       IN  /\ Clause("C11", "every_class_listed_once",
                     /\ {<<cls[i].b, cls[i].r, cls[i].c>> : i \in 1..Len(cls)} = Classes(N, W)
                     /\ Len(cls) = Cardinality(Classes(N, W)))
           /\ Clause("C11", "class_has_W_minus_block_positions",
                     \A i \in 1..Len(cls) : /\ Len(cls[i].comp) = W - cls[i].b
                                            /\ Len(cls[i].rows) = W - cls[i].b
                                            /\ Len(cls[i].cols) = W - cls[i].b)
           /\ Clause("C11", "positions_equal_under_block_toeplitz",
                     \A i \in 1..Len(cls) : \A j \in 1..Len(cls[i].rows) :
                         /\ cls[i].rows[j] <= cls[i].cols[j] /\ cls[i].cols[j] < n /\ cls[i].rows[j] >= 0
                         /\ ClassOf(N, cls[i].rows[j], cls[i].cols[j]) = <<cls[i].b, cls[i].r, cls[i].c>>)
           /\ Clause("C11", "compressed_and_rowcol_forms_name_same_positions",
                     \A i \in 1..Len(cls) : \A j \in 1..Len(cls[i].rows) :
                         cls[i].comp[j] = RankClosed(n, cls[i].rows[j], cls[i].cols[j]))
           /\ Clause("C11", "classes_partition_upper_triangle",
                     /\ UNION {{cls[i].comp[j] : j \in 1..Len(cls[i].comp)} : i \in 1..Len(cls)}
                            = 0..(TriSize(n) - 1)
                     /\ LenSumAcc(cls, 1, 0) = TriSize(n))

Next == TraceCidx \/ TraceTriu \/ TraceFullSize \/ TraceCompress \/ TraceReinflate
          \/ TraceRoundTrip \/ TraceClasses
Spec == Init /\ [][Next]_vars
Accept == (l = Len(Traces[tid].events) + 1) => TLCSet(1, TLCGet(1) \cup {tid})
Post == PrintT(<<"ACCEPTED", TLCGet(1)>>)
=============================================================================
