-------------------------- MODULE RepopulateImpl --------------------------
(* HOW: a transcription of repopulate_empty_clusters / _find_ranked_donor_cluster_ids /
   _find_point_donor / _move_random_points (cluster_maintenance.py), count model.
   One action per critical section, including the branch that pops the LAST candidate instead
   of the head (`remaining_donors.pop()`), which TLC shows unreachable (NoPopLast).           *)
EXTENDS RepopOps
CONSTANTS K, M, MaxSize
VARIABLES sizes0, rank, sizes, pc, todo, remaining, donor, poppedLast, err
vars == <<sizes0, rank, sizes, pc, todo, remaining, donor, poppedLast, err>>

W == INSTANCE Repopulate WITH before <- sizes0,
        after <- (IF pc = "done" THEN sizes ELSE sizes0),     \* refinement mapping
        outcome <- (IF pc = "done" THEN "ok" ELSE IF pc = "failed" THEN "error" ELSE "pending")

Init == /\ sizes0 \in [0..(K - 1) -> 0..MaxSize]
        /\ rank \in W!Perms
        /\ sizes = sizes0 /\ pc = "detect" /\ todo = {} /\ remaining = <<>>
        /\ donor = -1 /\ poppedLast = FALSE /\ err = FALSE

Keep == UNCHANGED <<sizes0, rank>>

Detect == /\ pc = "detect"
          /\ todo' = Under(sizes, K)
          /\ pc' = IF Under(sizes, K) = {} THEN "done" ELSE "rank"
          /\ UNCHANGED <<sizes, remaining, donor, poppedLast, err>> /\ Keep

RankDonors == /\ pc = "rank"
              /\ remaining' = SelectSeq(rank, LAMBDA k : sizes[k] >= 2 * M)
              /\ pc' = "pick"
              /\ UNCHANGED <<sizes, todo, donor, poppedLast, err>> /\ Keep

(* one turn of the while-loop in _find_point_donor *)
PickFound == /\ pc = "pick" /\ todo # {} /\ Len(remaining) > 0
             /\ sizes[remaining[1]] >= 2 * M
             /\ donor' = remaining[1]
             /\ remaining' = IF sizes[remaining[1]] < 3 * M THEN Tail(remaining) ELSE remaining
             /\ pc' = "move"
             /\ UNCHANGED <<sizes, todo, poppedLast, err>> /\ Keep
PickPopLast == /\ pc = "pick" /\ todo # {} /\ Len(remaining) > 0
               /\ sizes[remaining[1]] < 2 * M
               /\ remaining' = SubSeq(remaining, 1, Len(remaining) - 1)     \* pop() the wrong end
               /\ poppedLast' = TRUE
               /\ UNCHANGED <<sizes, todo, donor, pc, err>> /\ Keep
PickFail == /\ pc = "pick" /\ todo # {} /\ Len(remaining) = 0
            /\ err' = TRUE /\ pc' = "failed"
            /\ sizes' = sizes0                         \* the caller keeps its own, unmodified state
            /\ UNCHANGED <<todo, remaining, donor, poppedLast>> /\ Keep

(* _move_random_points: exactly m members of the donor (which ones is random) *)
Move == /\ pc = "move"
        /\ LET r == CHOOSE x \in todo : \A y \in todo : x <= y
           IN  /\ sizes' = [sizes EXCEPT ![donor] = @ - M, ![r] = @ + M]
               /\ todo' = todo \ {r}
        /\ pc' = "pick"
        /\ UNCHANGED <<remaining, donor, poppedLast, err>> /\ Keep
Finish == /\ pc = "pick" /\ todo = {}
          /\ pc' = "done"
          /\ UNCHANGED <<sizes, todo, remaining, donor, poppedLast, err>> /\ Keep

Next == Detect \/ RankDonors \/ PickFound \/ PickPopLast \/ PickFail \/ Move \/ Finish
Spec == Init /\ [][Next]_vars

NoPopLast == ~poppedLast
DonorNeverStarved == \A k \in 0..(K - 1) : sizes[k] < sizes0[k] => sizes[k] >= M
PostOK == W!PostOK
ErrOK  == W!ErrOK
(* end-to-end: the terminal sizes are exactly those the WHAT step prescribes *)
MatchesWhat == /\ (pc = "done" => ~MustFail(sizes0, K, M) /\ sizes = ExpectedSizes(sizes0, K, M, rank))
               /\ (pc = "failed" => MustFail(sizes0, K, M))
Refines == W!Spec
(* dump terminal behaviours for the replay driver *)
Dump == (pc \in {"done", "failed"}) =>
          PrintT(<<"BEH", [k \in 1..K |-> sizes0[k - 1]], rank, [k \in 1..K |-> sizes[k - 1]], pc>>)
=============================================================================
