---------------------------- MODULE Stacking ----------------------------
(* The data-preparation pipeline of both front ends as a small state machine:
     Stack (each series) -> Concat -> Label (any labelling: the main loop is opaque here)
     -> Split -> Pad.
   TLC checks on every tuple of series lengths within the bounds that no stacked row mixes
   series, and that Split followed by Pad restores one list per series of the original length
   with exactly Front(W) / Back(W) markers (C10, C04).                                        *)
EXTENDS StackOps, TLC
CONSTANTS W, N, MaxSeries, MaxExtra, KK
VARIABLES Ts, pc, joint, labels, parts, padded
vars == <<Ts, pc, joint, labels, parts, padded>>

Init == /\ Ts \in UNION {[1..n -> W..(W + MaxExtra)] : n \in 1..MaxSeries}
        /\ pc = "stack" /\ joint = <<>> /\ labels = <<>> /\ parts = <<>> /\ padded = <<>>

Stack == /\ pc = "stack"
         /\ joint' = [g \in 1..SumSeq(StackedLens(Ts, W)) |->
                         [q \in 1..(N * W) |-> JointCell(Ts, W, N, g, q)]]
         /\ pc' = "label" /\ UNCHANGED <<Ts, labels, parts, padded>>
Label == /\ pc = "label"
         /\ labels' \in [1..Len(joint) -> 0..(KK - 1)]
         /\ pc' = "split" /\ UNCHANGED <<Ts, joint, parts, padded>>
Split == /\ pc = "split"
         /\ parts' = SplitOf(labels, StackedLens(Ts, W))
         /\ pc' = "pad" /\ UNCHANGED <<Ts, joint, labels, padded>>
Pad   == /\ pc = "pad"
         /\ padded' = [s \in 1..Len(parts) |-> PadOf(parts[s], W)]
         /\ pc' = "done" /\ UNCHANGED <<Ts, joint, labels, parts>>
Next == Stack \/ Label \/ Split \/ Pad
Spec == Init /\ [][Next]_vars

NoRowMixesSeries == pc # "stack" =>
    \A g \in 1..Len(joint) : \A q \in 1..(N * W) :
        SeriesOfToken(Ts, N, joint[g][q]) = SeriesOfRow(StackedLens(Ts, W), g, 1)[1]
RowsAreWindows == pc # "stack" =>
    \A g \in 1..Len(joint) : \A q \in 1..(N * W) :
        LET sr == SeriesOfRow(StackedLens(Ts, W), g, 1)
            local == joint[g][q] - N * Prefix(Ts, sr[1] - 1)
        IN  local = ((sr[2] - 1) + ((q - 1) \div N)) * N + ((q - 1) % N)
PadSplitRestores == pc = "done" =>
    /\ Len(padded) = Len(Ts)
    /\ \A s \in 1..Len(Ts) :
        /\ Len(padded[s]) = Ts[s]
        /\ \A i \in 1..Ts[s] : (padded[s][i] = -1) <=> (i <= Front(W) \/ i > Ts[s] - Back(W))
        /\ \A i \in 1..Len(parts[s]) : padded[s][Front(W) + i] = labels[Prefix(StackedLens(Ts, W), s - 1) + i]
    /\ Front(W) + Back(W) = W - 1 /\ Back(W) - Front(W) \in {0, 1}
MaskZerosExactlyAtBoundaries ==
    LET lens == StackedLens(Ts, W)
        m == MaskOf(lens)
    IN  \A i \in 1..(SumSeq(lens) - 1) :
            (m[i] = 0) <=> (SeriesOfRow(lens, i, 1)[1] # SeriesOfRow(lens, i + 1, 1)[1])
=============================================================================
