SPECIFICATION Spec
CONSTANTS
  MaxSeries = 2
  MaxLen = 3
  K = 2
  Vals = {0,1}
  Beta = 2
  Shift = 0
INVARIANT Decomposes
INVARIANT OptimaRestrict
