SPECIFICATION Spec
CONSTANTS
  W = 1
  N = 1
  MaxSeries = 3
  MaxExtra = 2
  KK = 2
INVARIANT NoRowMixesSeries
INVARIANT RowsAreWindows
INVARIANT PadSplitRestores
INVARIANT MaskZerosExactlyAtBoundaries
