------------------------------ MODULE TiccHeap ------------------------------
(* The main loop over the object heap of ModelHeap: main_loop.fit_stacked_data as the sequence of state
   operations it performs - assign the initial labels to an empty model, then per round
   repopulate (shallow copy + deep copies of the clusters + assign labels; or the SAME object when no
   cluster is under-populated), statistics and optimise (shallow copy + cluster copies with one array
   replaced), relabel (like repopulate), and the stopping rule, which compares the current label list
   with a saved list OBJECT (copy.copy of the label list; CopyPrev = FALSE models keeping the reference).

   Checked by TLC:  every state the loop ever created is a partition (C13), no phase alters a state
   that existed before it ran (C13), the saved labelling is never changed behind the loop's back, and
   - under the mapping  clab = what the current state's label list holds, cprev = what the saved
   list object holds NOW - the loop implements LoopCore (so it inherits C09's control-flow statements).
   Variants (self-test, must fail): the label setter writing INTO the shared list object
   (SetterInPlace) breaks InputsUntouched, and together with CopyPrev = FALSE breaks the refinement
   (the stopping rule then compares a list with itself).  CopyPrev = FALSE alone is safe - because
   the setter always rebinds - which TLC confirms (TiccHeap_alias.cfg).                          *)
EXTENDS ModelHeap

CONSTANTS Limit, CopyPrev, SetterInPlace
VARIABLES cur, prevRef, hrnd, hpc, hexit
hvars == <<heap, cl, st, nxt, ops, lastDeep, cur, prevRef, hrnd, hpc, hexit>>

HSmall(L) == \E k \in 0..(K - 1) : Len(Members(L, k)) < 2

(* the label setter, optionally writing into the existing list object instead of binding a new one *)
SetLabelsEffG(hp, c, s, n, h, L) ==
    IF SetterInPlace /\ s[h].lab # 0
    THEN IF hp[s[h].lab] = L THEN <<hp, c, s, n>>
         ELSE LET hp1 == [hp EXCEPT ![s[h].lab] = L]
                  r   == UpdMem(hp1, c, n, s[h].cls, L, 1)
              IN  <<r[1], r[2], s, r[3]>>
    ELSE SetLabelsEff(hp, c, s, n, h, L)
RelabelLikeEffG(hp, c, s, n0, h, L) ==
    LET s1 == ShallowEff(s, h)
        n  == Len(s1)
        r  == DeepClusters(hp, c, n0, s[h].cls, 1, <<>>)
        s2 == [s1 EXCEPT ![n].cls = r[4]]
    IN  SetLabelsEffG(r[1], r[2], s2, r[3], n, L)

HInit ==
    LET hp0 == [i \in 1..(3 * K) |-> IF i % 3 = 1 THEN <<>> ELSE i]
        c0  == [i \in (3 * K + 1)..(4 * K) |->
                   [mem |-> 3 * (i - 3 * K) - 2, stat |-> 3 * (i - 3 * K) - 1, mrf |-> 3 * (i - 3 * K)]]
    IN  /\ heap = hp0 /\ cl = c0 /\ st = <<[lab |-> 0, cls |-> [k \in 1..K |-> 3 * K + k]]>>
        /\ nxt = 4 * K + 1 /\ ops = 0 /\ lastDeep = <<>>
        /\ cur = 1 /\ prevRef = 0 /\ hrnd = 0 /\ hpc = "call" /\ hexit = ""

Apply(q) == heap' = q[1] /\ cl' = q[2] /\ st' = q[3] /\ nxt' = q[4]
Aux == UNCHANGED <<ops, lastDeep>>

HStart(L) ==            \* empty_model(); model.point_labels = build_initial_clusters(...)
    /\ hpc = "call"
    /\ Apply(SetLabelsEffG(heap, cl, st, nxt, 1, L))
    /\ hpc' = "top" /\ UNCHANGED <<cur, prevRef, hrnd, hexit>> /\ Aux
HRepop(L2) ==           \* repopulate_empty_clusters: a NEW state when some cluster holds < 2 points ...
    /\ hpc = "top" /\ hrnd > 0 /\ HSmall(LabelsOf(cur))
    /\ Apply(RelabelLikeEffG(heap, cl, st, nxt, cur, L2))
    /\ cur' = Len(st) + 1 /\ hpc' = "fit"
    /\ UNCHANGED <<prevRef, hrnd, hexit>> /\ Aux
HSkip ==                \* ... the SAME object otherwise
    /\ hpc = "top" /\ ~(hrnd > 0 /\ HSmall(LabelsOf(cur)))
    /\ hpc' = "fit" /\ UNCHANGED <<heap, cl, st, nxt, cur, prevRef, hrnd, hexit>> /\ Aux
HStats ==
    /\ hpc = "fit"
    /\ Apply(FitLikeEff(heap, cl, st, nxt, cur, "stat"))
    /\ cur' = Len(st) + 1 /\ hpc' = "fit2" /\ UNCHANGED <<prevRef, hrnd, hexit>> /\ Aux
HOptimise ==
    /\ hpc = "fit2"
    /\ Apply(FitLikeEff(heap, cl, st, nxt, cur, "mrf"))
    /\ cur' = Len(st) + 1 /\ hpc' = "relabel" /\ UNCHANGED <<prevRef, hrnd, hexit>> /\ Aux
HRelabel(L2) ==
    /\ hpc = "relabel"
    /\ Apply(RelabelLikeEffG(heap, cl, st, nxt, cur, L2))
    /\ cur' = Len(st) + 1 /\ hpc' = "decide" /\ UNCHANGED <<prevRef, hrnd, hexit>> /\ Aux
Same == prevRef # 0 /\ heap[prevRef] = LabelsOf(cur)
HConverge ==
    /\ hpc = "decide" /\ Same
    /\ hexit' = "converged" /\ hpc' = "done"
    /\ UNCHANGED <<heap, cl, st, nxt, cur, prevRef, hrnd>> /\ Aux
SavePrev ==             \* previous = copy.copy(model.point_labels)   (or the reference itself)
    IF CopyPrev
    THEN heap' = Put(heap, nxt, LabelsOf(cur)) /\ prevRef' = nxt /\ nxt' = nxt + 1
    ELSE prevRef' = st[cur].lab /\ UNCHANGED <<heap, nxt>>
HContinue ==
    /\ hpc = "decide" /\ ~Same /\ hrnd + 1 < Limit
    /\ SavePrev /\ hrnd' = hrnd + 1 /\ hpc' = "top"
    /\ UNCHANGED <<cl, st, cur, hexit>> /\ Aux
HLimit ==
    /\ hpc = "decide" /\ ~Same /\ hrnd + 1 >= Limit
    /\ SavePrev /\ hexit' = "limit" /\ hpc' = "done"
    /\ UNCHANGED <<cl, st, cur, hrnd>> /\ Aux

HNext == \/ \E L \in AllL : HStart(L) \/ HRepop(L) \/ HRelabel(L)
         \/ HSkip \/ HStats \/ HOptimise \/ HConverge \/ HContinue \/ HLimit
HSpec == HInit /\ [][HNext]_hvars

(* ---- C13 in the loop ---- *)
Started == hpc # "call"
HPartition == Started => Partition
HInputsUntouched == [][Started => \A h \in Handles : Proj(h)' = Proj(h)]_hvars
(* what the saved list object holds is what the loop saved (nobody writes into it) *)
SavedLabellingIsStable == [][(prevRef # 0 /\ prevRef' = prevRef) => heap'[prevRef] = heap[prevRef]]_hvars

(* ---- the loop over objects implements the control skeleton ---- *)
CorePcH == IF hpc = "fit2" THEN "fit" ELSE hpc
Core == INSTANCE LoopCore WITH ccfg <- [T |-> NP, K |-> K, limit |-> Limit], cpc <- CorePcH, crnd <- hrnd,
                               clab <- IF hpc = "call" THEN <<>> ELSE LabelsOf(cur),
                               cprev <- IF prevRef = 0 THEN <<>> ELSE heap[prevRef],
                               cexit <- hexit, CoreConfigs <- {[T |-> NP, K |-> K, limit |-> Limit]}
RefinesCore == Core!Spec
=============================================================================
