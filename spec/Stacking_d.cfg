SPECIFICATION Spec
CONSTANTS
  W = 4
  N = 2
  MaxSeries = 2
  MaxExtra = 2
  KK = 2
INVARIANT NoRowMixesSeries
INVARIANT RowsAreWindows
INVARIANT PadSplitRestores
INVARIANT MaskZerosExactlyAtBoundaries
