SPECIFICATION Spec
CONSTANTS
  W = 3
  N = 1
  MaxSeries = 3
  MaxExtra = 3
  KK = 2
INVARIANT NoRowMixesSeries
INVARIANT RowsAreWindows
INVARIANT PadSplitRestores
INVARIANT MaskZerosExactlyAtBoundaries
