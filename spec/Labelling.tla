---------------------------- MODULE Labelling ----------------------------
(* WHAT: the label-assignment step (property C01).
   One step: from a cost table and a switching cost to ANY label sequence of minimum total
   cost, reporting exactly that sequence's cost.  Tie-breaking is deliberately left open.  *)
EXTENDS LabelOps
CONSTANTS T, K, Vals, Betas, VectorBeta
VARIABLES cost, beta, labels, reported, done
vars == <<cost, beta, labels, reported, done>>

BetaSpace == IF T = 1 THEN {<<>>}
             ELSE IF VectorBeta THEN [1..(T - 1) -> Betas]
             ELSE {[i \in 1..(T - 1) |-> v] : v \in Betas}

Init == /\ cost \in [1..T -> [1..K -> Vals]]
        /\ beta \in BetaSpace
        /\ labels = <<>> /\ reported = 0 /\ done = FALSE

Relabel == /\ ~done
           /\ labels' \in AllLabellings(T, K)
           /\ TotalCost(cost, beta, labels') = MinCostBF(cost, beta, T, K)
           /\ reported' = TotalCost(cost, beta, labels')
           /\ done' = TRUE
           /\ UNCHANGED <<cost, beta>>

Next == Relabel
Spec == Init /\ [][Next]_vars

(* C01 as a state predicate *)
Optimal == done => /\ InRange(labels, T, K)
                   /\ reported = TotalCost(cost, beta, labels)
                   /\ reported = MinCostBF(cost, beta, T, K)
(* the oracle used for long implementation records agrees with brute force *)
OracleAgrees == MinCostDP(cost, beta, T, K) = MinCostBF(cost, beta, T, K)
=============================================================================
