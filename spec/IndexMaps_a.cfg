SPECIFICATION Spec
CONSTANTS
  MaxN = 12
  NN = 3
  WW = 3
  TrackHistory = TRUE
INVARIANT ClassesPartition
INVARIANT ClosedFormIsRank
INVARIANT RankIsBijection
