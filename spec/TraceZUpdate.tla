---------------------------- MODULE TraceZUpdate ----------------------------
(* Trace specification for the consensus step of the solver on EXACT data (C02, C18): the real
   admm_update_z / compute_lambda_sum / soft_threshold_prox are called on integer vectors x, u, integer
   sparsity weights (scalar, constant matrix or non-constant symmetric matrix) and rho in {1, 2, 4};
   TLC recomputes, for every Toeplitz class (positions from IndexOps, the module whose partition theorem
   IndexMaps.tla checks), the exact rational the ZUpdate specification prescribes and compares it with what
   the code wrote at EVERY position of the class.
   Record: N, W, rho, scalar (BOOLEAN), lam (scalar: <<v>>; matrix: n x n integers), s (x+u per compressed
   position, integers), zq (round(z * 2^16) per compressed position), lamsum (per class, what
   compute_lambda_sum returned, integer)                                                                *)
EXTENDS IndexOps, TLC, TLCExt, Json, IOUtils
CONSTANT Enforced
ASSUME TLCSet(1, {}) /\ TLCSet(2, JsonDeserialize(IOEnv.TRACE_FILE))
Recs == TLCGet(2)
VARIABLES tid, st
vars == <<tid, st>>
R == Recs[tid]
Clause(pid, name, b) ==
    IF pid \notin Enforced THEN TRUE
    ELSE IF b THEN TRUE
    ELSE PrintT(<<"CLAUSE-FAIL", tid, pid, name>>) /\ FALSE
Init == tid \in 1..Len(Recs) /\ st = "called"

n == R.N * R.W
Cidx(p) == RankClosed(n, p[1], p[2]) + 1                         \* 1-based index into the compressed vectors
RECURSIVE SumOver(_, _, _, _)
SumOver(f, pos, i, acc) == IF i > Len(pos) THEN acc ELSE SumOver(f, pos, i + 1, acc + f[Cidx(pos[i])])
RECURSIVE LamOver(_, _, _)
LamOver(pos, i, acc) == IF i > Len(pos) THEN acc
                        ELSE LamOver(pos, i + 1, acc + R.lam[pos[i][1] + 1][pos[i][2] + 1])

Q(k) == IF R.scalar THEN R.lam[1] * (R.W - k[1])
        ELSE LamOver(ClassPositions(R.N, R.W, k[1], k[2], k[3]), 1, 0)
A(k) == R.rho * SumOver(R.s, ClassPositions(R.N, R.W, k[1], k[2], k[3]), 1, 0)
Den(k) == R.rho * (R.W - k[1])
Num(k) == IF A(k) > Q(k) THEN A(k) - Q(k) ELSE IF A(k) < -Q(k) THEN A(k) + Q(k) ELSE 0
(* zq = round(z * 65536) must be within one unit of Num/Den * 65536 *)
CloseTo(zq, num, den) == (zq * den - num * 65536 <= den) /\ (num * 65536 - zq * den <= den)

ZStep ==
    /\ st = "called"
    /\ Clause("C02", "lambda_sum_is_the_sum_over_the_class_positions",
              \A k \in Classes(R.N, R.W) : R.lamsum[Cidx(ClassPositions(R.N, R.W, k[1], k[2], k[3])[1])] = Q(k))
    /\ Clause("C02", "every_position_of_a_class_gets_the_exact_consensus_value",
              \A k \in Classes(R.N, R.W) :
                  LET pos == ClassPositions(R.N, R.W, k[1], k[2], k[3])
                  IN  \A i \in 1..Len(pos) : CloseTo(R.zq[Cidx(pos[i])], Num(k), Den(k)))
    /\ Clause("C18", "scalar_and_constant_matrix_forms_give_the_same_step",
              R.scalar \/ ~R.constant \/ R.zq = R.zqScalarForm)
    /\ Clause("C19", "x_u_and_lambda_unchanged", R.args_same)
    /\ st' = "returned" /\ UNCHANGED tid
Next == ZStep
Spec == Init /\ [][Next]_vars
Accept == (st = "returned") => TLCSet(1, TLCGet(1) \cup {tid})
Post == PrintT(<<"ACCEPTED", TLCGet(1)>>)
=============================================================================
