-------------------------- MODULE LoopCoreProofs --------------------------
(* Unbounded safety of the control skeleton, proved with TLAPS (tlapm): for EVERY set of configurations whose
   iteration limit is a positive natural number - any T, K, limit, not only the small instances TLC enumerates -
   the round counter stays below the limit, an early stop happens only at a fixed point, and a limit exit
   happens in the last permitted round.  (Checked by `tlapm LoopCoreProofs.tla`; the harness runs it in the
   thorough tier of C09 and requires every obligation to be proved.)                                   *)
EXTENDS LoopCore, TLAPS

ASSUME ConfigsOK == \A c \in CoreConfigs : c.limit \in Nat /\ c.limit >= 1

PCs == {"call", "top", "fit", "relabel", "decide", "done", "failed"}
IndInv == /\ ccfg \in CoreConfigs
          /\ crnd \in Nat
          /\ cpc \in PCs
          /\ crnd < ccfg.limit
          /\ cexit \in {"", "converged", "limit"}
          /\ (cexit = "converged" => cprev = clab /\ cpc = "done")
          /\ (cexit = "limit" => crnd + 1 = ccfg.limit /\ cpc = "done")
          /\ (cpc = "done" => cexit # "")
          /\ (cexit # "" => cpc = "done")

LEMMA InitInv == CInit => IndInv
  BY ConfigsOK DEF CInit, IndInv, PCs

LEMMA NextInv == IndInv /\ [CNext]_cvars => IndInv'
<1> SUFFICES ASSUME IndInv, [CNext]_cvars PROVE IndInv'
  OBVIOUS
<1> USE ConfigsOK DEF IndInv, PCs
<1>1. CASE UNCHANGED cvars
  BY <1>1 DEF cvars
<1>2. CASE \E L \in Labellings : CStart(L)
  BY <1>2 DEF CStart
<1>3. CASE \E L \in Labellings : CRepop(L)
  BY <1>3 DEF CRepop
<1>4. CASE \E L \in Labellings : CRelabel(L)
  BY <1>4 DEF CRelabel
<1>5. CASE CSkip
  BY <1>5 DEF CSkip
<1>6. CASE CFit
  BY <1>6 DEF CFit
<1>7. CASE CConverge
  BY <1>7 DEF CConverge
<1>8. CASE CContinue
  BY <1>8 DEF CContinue
<1>9. CASE CLimit
  BY <1>9 DEF CLimit
<1>10. CASE CFail
  BY <1>10 DEF CFail
<1> QED
  BY <1>1, <1>2, <1>3, <1>4, <1>5, <1>6, <1>7, <1>8, <1>9, <1>10 DEF CNext

THEOREM Safety == Spec => [](Bounded /\ EarlyStopIsFixpoint /\ LimitExit)
<1>1. IndInv => Bounded /\ EarlyStopIsFixpoint /\ LimitExit
  BY DEF IndInv, Bounded, EarlyStopIsFixpoint, LimitExit
<1>2. Spec => []IndInv
  BY InitInv, NextInv, PTL DEF Spec
<1> QED
  BY <1>1, <1>2, PTL
=============================================================================
