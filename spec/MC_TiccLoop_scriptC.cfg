SPECIFICATION Spec
CONSTANTS
  Configs <- CfgScriptC
  FixedCode = TRUE
