SPECIFICATION Spec
CONSTANTS
  MaxN = 1
  NN = 6
  WW = 8
  TrackHistory = FALSE
INVARIANT ClassesPartition
