SPECIFICATION Spec
CONSTANTS
  MaxIt = 4
  RhoVals = {1}
  HasCallback = FALSE
INVARIANT ReturnsLastX
INVARIANT NeverChecksAtIterationZero
INVARIANT WithinBudget
INVARIANT ConvergedIffBothResiduals
INVARIANT EarlyStopOnlyWhenConverged
INVARIANT CheckSeesThisIterationsIterates
