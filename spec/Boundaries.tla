----------------------------- MODULE Boundaries -----------------------------
(* The design argument behind C07: when several series are labelled jointly with a per-pair
   switching cost that is ZERO exactly on the pairs that straddle two series, the joint problem
   decomposes: its minimum is the sum of the per-series minima and every joint optimum restricts to
   an optimum of each series.  TLC checks this for every cost table and every tuple of series
   lengths within the bounds.  With the mask shifted by one position (Shift = 1: what the helper
   label_switching_cost_template did before the fix) TLC produces a counterexample.              *)
EXTENDS LabelOps, StackOps
CONSTANTS MaxSeries, MaxLen, K, Vals, Beta, Shift
VARIABLES lens, cost
vars == <<lens, cost>>

Init == /\ lens \in UNION {[1..n -> 1..MaxLen] : n \in 1..MaxSeries}
        /\ cost \in [1..SumSeq(lens) -> [1..K -> Vals]]
Next == UNCHANGED vars
Spec == Init /\ [][Next]_vars

T == SumSeq(lens)
Mask == [i \in 1..(T - 1) |-> IF (i - Shift) \in BoundaryPairs(lens) THEN 0 ELSE Beta]
Part(s) == SubSeq(cost, Prefix(lens, s - 1) + 1, Prefix(lens, s))
Flat(n) == [i \in 1..n |-> Beta]
SeriesMin(s) == MinCostBF(Part(s), Flat(lens[s]), lens[s], K)
RECURSIVE SumMinAcc(_, _)
SumMinAcc(s, acc) == IF s > Len(lens) THEN acc ELSE SumMinAcc(s + 1, acc + SeriesMin(s))
JointMin == MinCostBF(cost, Mask, T, K)

Decomposes == JointMin = SumMinAcc(1, 0)
OptimaRestrict ==
    \A L \in AllLabellings(T, K) :
        TotalCost(cost, Mask, L) = JointMin =>
            \A s \in 1..Len(lens) :
                TotalCost(Part(s), Flat(lens[s]), SubSeq(L, Prefix(lens, s - 1) + 1, Prefix(lens, s)))
                    = SeriesMin(s)
=============================================================================
