---------------------------- MODULE StackOps ----------------------------
(* Pure operators for window stacking, joint concatenation, splitting, padding and the
   per-pair switching-cost mask (C10, C04, C07).  Cells are TOKENS: the input cell (row r,
   column c) of a TxN series is the integer r*N + c (0-based); series s of a tuple adds the
   offset N * (sum of the lengths of the series before it).                                 *)
EXTENDS Integers, Sequences, FiniteSets

RECURSIVE SumSeqAcc(_, _, _)
SumSeqAcc(s, i, acc) == IF i > Len(s) THEN acc ELSE SumSeqAcc(s, i + 1, acc + s[i])
SumSeq(s) == SumSeqAcc(s, 1, 0)
Prefix(s, n) == SumSeq(SubSeq(s, 1, n))                 \* sum of the first n entries

(* stacking one TxN series with window W: (T-W+1) x (N*W); columns [jN,(j+1)N) of row i are row i+j *)
StackRows(T, W) == T - W + 1
StackCell(N, i, q) == (i + (q \div N)) * N + (q % N)    \* i, q 0-based
StackOf(T, W, N) == [i \in 1..StackRows(T, W) |-> [q \in 1..(N * W) |-> StackCell(N, i - 1, q - 1)]]

(* several series: row-wise concatenation, in input order, of the individual stackings *)
StackedLens(Ts, W) == [s \in 1..Len(Ts) |-> Ts[s] - W + 1]
RECURSIVE SeriesOfRow(_, _, _)
SeriesOfRow(lens, g, s) == IF g <= lens[s] THEN <<s, g>> ELSE SeriesOfRow(lens, g - lens[s], s + 1)
JointCell(Ts, W, N, g, q) ==       \* g 1-based joint row, q 1-based column
    LET sr == SeriesOfRow(StackedLens(Ts, W), g, 1)
    IN  N * Prefix(Ts, sr[1] - 1) + StackCell(N, sr[2] - 1, q - 1)
SeriesOfToken(Ts, N, tok) ==       \* which series an input token belongs to
    CHOOSE s \in 1..Len(Ts) : N * Prefix(Ts, s - 1) <= tok /\ tok < N * Prefix(Ts, s)

(* splitting a joint label list by the stacked lengths *)
SplitOf(joint, lens) ==
    [s \in 1..Len(lens) |-> SubSeq(joint, Prefix(lens, s - 1) + 1, Prefix(lens, s))]

(* padding: floor((W-1)/2) markers in front, the rest of the W-1 behind *)
Front(W) == (W - 1) \div 2
Back(W)  == (W - 1) - Front(W)
PadOf(L, W) == [i \in 1..Front(W) |-> -1] \o L \o [i \in 1..Back(W) |-> -1]

(* mask over the joint points: entry i prices the pair (i, i+1); 0 exactly on boundary pairs *)
BoundaryPairs(lens) == {Prefix(lens, s) : s \in 1..(Len(lens) - 1)}          \* 1-based index i
MaskOf(lens) == [i \in 1..SumSeq(lens) |-> IF i \in BoundaryPairs(lens) THEN 0 ELSE 1]
=============================================================================
