------------------------------- MODULE Limb -------------------------------
(* Two-limb integers for TLC (whose integers are 32-bit): <<hi, lo>> denotes hi * 2^20 + lo with
   0 <= lo < 2^20.  The harness quantises a float x as round(x * 2^s) and splits it; sums of up to
   ~1000 such values stay within |hi| < 2^31.                                                   *)
EXTENDS Integers, Sequences
LB == 1048576
LNorm(h, l) == <<h + (l \div LB), l % LB>>
LZero == <<0, 0>>
LInt(n) == LNorm(0, n)
LAdd(a, b) == LNorm(a[1] + b[1], a[2] + b[2])
LNeg(a) == LNorm(-a[1], -a[2])
LSub(a, b) == LNorm(a[1] - b[1], a[2] - b[2])
LLeq(a, b) == a[1] < b[1] \/ (a[1] = b[1] /\ a[2] <= b[2])
LLt(a, b) == a[1] < b[1] \/ (a[1] = b[1] /\ a[2] < b[2])
LMin(a, b) == IF LLeq(a, b) THEN a ELSE b
LScale(a, n) == LNorm(a[1] * n, a[2] * n)                 \* n < 2000
LWithin(a, b, slack) == LLeq(LSub(a, b), LInt(slack)) /\ LLeq(LSub(b, a), LInt(slack))
IsLimb(a) == Len(a) = 2 /\ a[2] >= 0 /\ a[2] < LB

RECURSIVE LSumAcc(_, _, _)
LSumAcc(s, i, acc) == IF i > Len(s) THEN acc ELSE LSumAcc(s, i + 1, LAdd(acc, s[i]))
LSum(s) == LSumAcc(s, 1, LZero)

RECURSIVE LSeqMinAcc(_, _, _)
LSeqMinAcc(s, i, acc) == IF i > Len(s) THEN acc ELSE LSeqMinAcc(s, i + 1, LMin(acc, s[i]))
LSeqMin(s) == LSeqMinAcc(s, 2, s[1])
=============================================================================
