--------------------------- MODULE TraceModelHeap ---------------------------
(* Trace specification: sequences of state operations executed on REAL ModelState / ClusterParameters
   objects (assign labels, shallow/deep copy, the four phase functions, in-place mutation probes) must
   be behaviours of ModelHeap, and after every operation the projection of EVERY live state handle
   must be what the specification's heap says - so the aliasing the specification describes is the
   aliasing the code has (C13).                                                                     *)
EXTENDS ModelHeap, TLCExt, Json, IOUtils
CONSTANT Enforced
ASSUME TLCSet(1, {}) /\ TLCSet(2, JsonDeserialize(IOEnv.TRACE_FILE))
Traces == TLCGet(2)
VARIABLES tid, l
allvars == <<vars, tid, l>>
Ev == Traces[tid].events[l]

Clause(pid, name, b) ==
    IF pid \notin Enforced THEN TRUE
    ELSE IF b THEN TRUE
    ELSE PrintT(<<"CLAUSE-FAIL", tid, l, pid, name>>) /\ FALSE

TraceInit == /\ tid \in 1..Len(Traces) /\ l = 1
             /\ InitWith(Traces[tid].init)
IsEvent(o) == l <= Len(Traces[tid].events) /\ Ev.op = o /\ l' = l + 1 /\ UNCHANGED tid

SlotId(h, slot, k) == IF slot = "lab" THEN st[h].lab
                      ELSE IF slot = "mem" THEN cl[st[h].cls[k]].mem
                      ELSE IF slot = "stat" THEN cl[st[h].cls[k]].stat
                      ELSE cl[st[h].cls[k]].mrf

TraceOp ==
    \/ IsEvent("set_labels") /\ SetLabels(Ev.h, Ev.L)
    \/ IsEvent("shallow_copy") /\ ShallowCopy(Ev.h)
    \/ IsEvent("deep_copy") /\ DeepCopy(Ev.h)
    \/ IsEvent("phase_relabel") /\ PhaseRelabelLike(Ev.h, Ev.L)
    \/ IsEvent("phase_repop") /\ PhaseRelabelLike(Ev.h, Ev.L)
    \/ IsEvent("phase_noop") /\ UNCHANGED vars                   \* repopulation with nothing to do / no donor
    \/ IsEvent("phase_stats") /\ PhaseFitLike(Ev.h, "stat")
    \/ IsEvent("phase_opt") /\ PhaseFitLike(Ev.h, "mrf")
    \/ IsEvent("mutate") /\ Mutate(SlotId(Ev.h, Ev.slot, Ev.k), Ev.v)

(* positions (handle, cluster, slot) and the comparison of the two heaps *)
Pos == {<<h, k, s>> : h \in 1..Len(Ev.proj), k \in 1..K, s \in {"stat", "mrf"}}
SpecTok(p) == heap'[IF p[3] = "stat" THEN cl'[st'[p[1]].cls[p[2]]].stat ELSE cl'[st'[p[1]].cls[p[2]]].mrf]
ImplDig(p) == IF p[3] = "stat" THEN Ev.proj[p[1]].stat[p[2]] ELSE Ev.proj[p[1]].mrf[p[2]]

Compare ==
    /\ Clause("C13", "same_number_of_live_states", Len(Ev.proj) = Len(st'))
    /\ Clause("C13", "labels_of_every_live_state_as_specified",
              \A h \in 1..Len(st') : Ev.proj[h].labels = heap'[st'[h].lab])
    /\ Clause("C13", "membership_of_every_live_state_as_specified",
              \A h \in 1..Len(st') : \A k \in 1..K : Ev.proj[h].members[k] = heap'[cl'[st'[h].cls[k]].mem])
    /\ Clause("C13", "shared_or_untouched_statistics_stay_equal",
              \A p, q \in Pos : SpecTok(p) = SpecTok(q) => ImplDig(p) = ImplDig(q))
    /\ (Ev.op = "mutate" /\ Ev.slot \in {"stat", "mrf"} =>
          Clause("C13", "in_place_write_visible_exactly_where_the_object_is_shared",
                 \A p \in Pos : (SpecTok(p) = Ev.v) <=> (ImplDig(p) = Ev.vdig)))
    /\ (Ev.op = "deep_copy" =>
          Clause("C13", "deep_copy_shares_nothing_mutable_with_its_source",
                 Ev.shared = 0 /\ DeepCopyIsolates'))
    /\ (Ev.clean =>
          Clause("C13", "every_state_produced_by_phases_is_a_partition",
                 \A h \in 1..Len(st') : /\ Len(st'[h].cls) = K
                                        /\ \A k \in 1..K :
                                             heap'[cl'[st'[h].cls[k]].mem] = Members(heap'[st'[h].lab], k - 1)))
    /\ (Ev.op \in {"phase_relabel", "phase_repop", "phase_stats", "phase_opt", "phase_noop", "deep_copy",
                   "shallow_copy"} =>
          Clause("C13", "operation_does_not_alter_existing_states",
                 \A h \in 1..Len(st) : Proj(h)' = Proj(h)))

TraceSpec == TraceInit /\ [][TraceOp /\ Compare]_allvars
Accept == (l = Len(Traces[tid].events) + 1) => TLCSet(1, TLCGet(1) \cup {tid})
Post == PrintT(<<"ACCEPTED", TLCGet(1)>>)
=============================================================================
