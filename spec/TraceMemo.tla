----------------------------- MODULE TraceMemo -----------------------------
(* "The result is a function of the call key only" (C14 reproducibility / scheduling independence,
   C15 execution-mode transparency, C18 equivalent parameter forms, C07 single-series joint = single,
   C20 a failed call leaves no trace in later calls).
   A trace is one experiment: a sequence of completed calls, possibly from different processes, worker
   counts, execution modes, delay seeds, parameter forms or positions in a process history.  Each
   event carries `key` (digest of everything the property says the result may depend on: inputs and
   hyper-parameters BY VALUE and the RNG state) and `dig` (digest of the complete result).
   The specification's state is the memo table; a call with a key seen before must reproduce its
   digest.  `tags` say what differed (for the evidence and the failure message).                  *)
EXTENDS Integers, Sequences, FiniteSets, TLC, TLCExt, Json, IOUtils
CONSTANT Enforced
ASSUME TLCSet(1, {}) /\ TLCSet(2, JsonDeserialize(IOEnv.TRACE_FILE))
Traces == TLCGet(2)
VARIABLES tid, l, memo
vars == <<tid, l, memo>>
Ev == Traces[tid].events[l]

Clause(pid, name, b) ==
    IF pid \notin Enforced THEN TRUE
    ELSE IF b THEN TRUE
    ELSE PrintT(<<"CLAUSE-FAIL", tid, l, pid, name>>) /\ FALSE

Init == tid \in 1..Len(Traces) /\ l = 1 /\ memo = <<>>        \* memo: sequence of <<key, dig>>
Lookup(k) == {memo[i][2] : i \in {j \in 1..Len(memo) : memo[j][1] = k}}

Call ==
    /\ l <= Len(Traces[tid].events) /\ l' = l + 1 /\ UNCHANGED tid
    /\ Clause(Traces[tid].pid, "call_completed_like_its_equivalents", Ev.completed)
    /\ IF Lookup(Ev.key) = {}
       THEN memo' = Append(memo, <<Ev.key, Ev.dig>>)
       ELSE /\ Clause(Traces[tid].pid, Traces[tid].clause, Lookup(Ev.key) = {Ev.dig})
            /\ UNCHANGED memo
Next == Call
Spec == Init /\ [][Next]_vars
Accept == (l = Len(Traces[tid].events) + 1) => TLCSet(1, TLCGet(1) \cup {tid})
Post == PrintT(<<"ACCEPTED", TLCGet(1)>>)
=============================================================================
