SPECIFICATION Spec
CONSTANTS
  MaxIt = 3
  RhoVals = {1,2}
  HasCallback = TRUE
INVARIANT ReturnsLastX
INVARIANT NeverChecksAtIterationZero
INVARIANT WithinBudget
INVARIANT ConvergedIffBothResiduals
INVARIANT EarlyStopOnlyWhenConverged
INVARIANT CheckSeesThisIterationsIterates
