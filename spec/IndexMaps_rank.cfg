SPECIFICATION Spec
CONSTANTS
  MaxN = 150
  NN = 1
  WW = 1
  TrackHistory = FALSE
INVARIANT ClosedFormIsRank
INVARIANT RankIsBijection
