SPECIFICATION Spec
CONSTANTS
  K = 4
  M = 3
  MaxSize = 11
INVARIANT NoPopLast
INVARIANT DonorNeverStarved
INVARIANT PostOK
INVARIANT ErrOK
INVARIANT MatchesWhat
PROPERTY Refines
