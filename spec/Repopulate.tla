---------------------------- MODULE Repopulate ----------------------------
(* WHAT (C08), count model: one step from a size vector to the outcome the property allows. *)
EXTENDS RepopOps
CONSTANTS K, M, MaxSize
VARIABLES before, rank, after, outcome          \* outcome \in {"pending","ok","error"}
vars == <<before, rank, after, outcome>>

Perms == {s \in [1..K -> 0..(K - 1)] : \A a, b \in 1..K : a # b => s[a] # s[b]}

Init == /\ before \in [0..(K - 1) -> 0..MaxSize]
        /\ rank \in Perms
        /\ after = before /\ outcome = "pending"

Succeed == /\ outcome = "pending" /\ ~MustFail(before, K, M)
           /\ after' = ExpectedSizes(before, K, M, rank)
           /\ outcome' = "ok" /\ UNCHANGED <<before, rank>>
Fail    == /\ outcome = "pending" /\ MustFail(before, K, M)
           /\ outcome' = "error" /\ UNCHANGED <<before, rank, after>>
Next == Succeed \/ Fail
Spec == Init /\ [][Next]_vars

RECURSIVE SumAcc(_, _, _)
SumAcc(sz, k, acc) == IF k >= K THEN acc ELSE SumAcc(sz, k + 1, acc + sz[k])
Total(sz) == SumAcc(sz, 0, 0)

(* the clauses of C08, as consequences of the step above (checked as invariants) *)
PostOK == outcome = "ok" =>
    /\ Total(after) = Total(before)                                         \* points conserved
    /\ \A k \in 0..(K - 1) : before[k] < 2 => after[k] >= M                 \* refilled
    /\ \A k \in 0..(K - 1) : after[k] < before[k] => before[k] >= 2 * M /\ after[k] >= M
    /\ \A k \in 0..(K - 1) : after[k] > before[k] => before[k] < 2 /\ after[k] = before[k] + M
    /\ \A k \in 0..(K - 1) : (before[k] >= 2 /\ before[k] < 2 * M) => after[k] = before[k]
ErrOK == outcome = "error" =>
    \* at the moment of failure no cluster can give: after every possible donation, nobody holds 2m
    \A k \in 0..(K - 1) : before[k] >= 2 * M => before[k] - M * Cap(before, M, k) < 2 * M
=============================================================================
