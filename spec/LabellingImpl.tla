-------------------------- MODULE LabellingImpl --------------------------
(* HOW: a transcription of assign_point_cluster_labels (cluster_label_assignment.py):
   one action per backward row of the dynamic programme, then the read-out.
     - total[k] = future[i+1][k] + cost[i+1][k] + beta[i]
     - jump to the (first) global minimum iff it is STRICTLY cheaper than staying
     - start state = first argmin of future[1] + cost[1]
   TLC checks that this refines Labelling (PROPERTY Refines) and the cost-to-go invariant. *)
EXTENDS LabelOps, TLC
CONSTANTS T, K, Vals, Betas, VectorBeta
VARIABLES cost, beta, pc, i, future, path, labels, reported
vars == <<cost, beta, pc, i, future, path, labels, reported>>

W == INSTANCE Labelling WITH done <- (pc = "done")

Zero == [r \in 1..T |-> [k \in 1..K |-> 0]]

Init == /\ cost \in [1..T -> [1..K -> Vals]]
        /\ beta \in W!BetaSpace
        /\ pc = "back" /\ i = T - 1
        /\ future = Zero /\ path = Zero
        /\ labels = <<>> /\ reported = 0

Total(r) == [k \in 1..K |-> future[r + 1][k] + cost[r + 1][k] + beta[r]]

Back == /\ pc = "back" /\ i >= 1
        /\ LET tv == Total(i)
               am == FirstArgMin(tv)
               jump(k) == tv[am] < tv[k] - beta[i]
           IN  /\ path'   = [path   EXCEPT ![i] = [k \in 1..K |-> IF jump(k) THEN am ELSE k]]
               /\ future' = [future EXCEPT ![i] = [k \in 1..K |-> IF jump(k) THEN tv[am]
                                                                  ELSE tv[k] - beta[i]]]
        /\ i' = i - 1
        /\ UNCHANGED <<cost, beta, pc, labels, reported>>

RECURSIVE Follow(_, _, _)
Follow(p, r, acc) == IF r >= T THEN acc
                     ELSE Follow(p, r + 1, Append(acc, p[r][acc[r]]))

ReadOut == /\ pc = "back" /\ i = 0
           /\ LET start == FirstArgMin([k \in 1..K |-> future[1][k] + cost[1][k]])
                  idx   == Follow(path, 1, <<start>>)       \* 1-based cluster indices
              IN  /\ labels' = [r \in 1..T |-> idx[r] - 1]
                  /\ reported' = future[1][start] + cost[1][start]
           /\ pc' = "done"
           /\ UNCHANGED <<cost, beta, i, future, path>>

Next == Back \/ ReadOut
Spec == Init /\ [][Next]_vars

(* rows below the cursor hold the exact minimum cost-to-go *)
DPInvariant == \A r \in (i + 1)..T : \A k \in 1..K :
                   future[r][k] = SuffixCostToGo(cost, beta, T, K, r, k - 1)
Optimal == W!Optimal
OracleAgrees == W!OracleAgrees
Refines == W!Spec
=============================================================================
