SPECIFICATION Spec
CONSTANTS
  MaxIt = 0
  RhoVals = {1}
  HasCallback = FALSE
INVARIANT ReturnsLastX
INVARIANT NeverChecksAtIterationZero
INVARIANT WithinBudget
INVARIANT ConvergedIffBothResiduals
INVARIANT EarlyStopOnlyWhenConverged
INVARIANT CheckSeesThisIterationsIterates
