--------------------------- MODULE TraceTiccLoop ---------------------------
(* Trace specification: one complete traced run of ticc_labels / ticc_joint_labels (hooks on) is
   accepted iff its events are, one by one, steps of TiccLoop - the actions are REUSED, their opaque
   parameters bound to what the code logged - and every enforced clause holds at the step where the
   property demands it.  Clauses are grouped by property id; a check runs with Enforced = {its id},
   so that a finding on one property never hides or fails another.

   Unobserved steps are composed explicitly:
     - worker Start/Finish/FailTask steps are not in the main-process trace; `gather` is
       (silent worker steps) . Gather, `raise` during gathering is (silent FailTask) . GatherFails . Raise
     - round 0 never calls repopulation: the statistics event is SkipRepop . Stats
   Known findings are named deviation actions (KnownDeviations): a step explained only by a listed
   deviation prints KNOWN-FINDING and is accepted; anything else is rejected.                      *)
EXTENDS TiccLoop, LimbLabelOps, StackOps, TLCExt, Json, IOUtils

CONSTANTS Enforced, KnownDeviations
ASSUME TLCSet(1, {}) /\ TLCSet(2, JsonDeserialize(IOEnv.TRACE_FILE))
Traces == TLCGet(2)

VARIABLES tid, l,
          statDig,      \* per cluster [cov, mean] digests of the statistics phase of this round
          mrfDig,       \* per cluster digest of the MRF stored by the optimise phase of this round
          subCov,       \* covariance digests handed to the optimiser, in submission order
          costDig,      \* digest of the assignment cost produced by the last relabel
          lastBeta,     \* what the labelling step was given as switching cost (summary)
          began,        \* the last round announced by a round_begin event
          singleton     \* clusters whose statistics of this round were fitted to ONE window with the unbiased estimator
tvars == <<tid, l, statDig, mrfDig, subCov, costDig, lastBeta, began, singleton>>
allvars == <<vars, tvars>>

Hdr == Traces[tid].hdr
Ev  == Traces[tid].events[l]
NEv == Len(Traces[tid].events)

Clause(pid, name, b) ==
    IF pid \notin Enforced THEN TRUE
    ELSE IF b THEN TRUE
    ELSE PrintT(<<"CLAUSE-FAIL", tid, l, pid, name>>) /\ FALSE
(* a clause with a recorded deviation: accepted (and reported) iff the deviation explains the step *)
ClauseDev(pid, name, b, dev, explains) ==
    IF pid \notin Enforced THEN TRUE
    ELSE IF b THEN TRUE
    ELSE IF dev \in KnownDeviations /\ explains THEN PrintT(<<"KNOWN-FINDING", tid, l, pid, dev>>)
    ELSE PrintT(<<"CLAUSE-FAIL", tid, l, pid, name>>) /\ FALSE

OkInc(x) == x \in {"ok", "inc"}
AllOkInc(s) == \A i \in 1..Len(s) : OkInc(s[i])
SetOf(s) == {s[i] : i \in 1..Len(s)}
MemberSets(ms) == [k \in 0..(Len(ms) - 1) |-> {p + 1 : p \in SetOf(ms[k + 1])}]
Sorted(s) == \A i \in 1..(Len(s) - 1) : s[i] < s[i + 1]

TraceInit ==
    /\ tid \in 1..Len(Traces) /\ l = 1
    /\ cfg = [T |-> Hdr.T, K |-> Hdr.K, limit |-> Hdr.limit, m |-> Hdr.m, maxProcs |-> 64, maxFaults |-> 1]
    /\ pc = "call" /\ round = 0
    /\ labels = <<>> /\ members = [k \in 0..(Hdr.K - 1) |-> {}] /\ prev = <<>>
    /\ stats = [k \in 0..(Hdr.K - 1) |-> NoStats] /\ mrf = [k \in 0..(Hdr.K - 1) |-> NoMrf]
    /\ scored = NoScore /\ costOf = [labels |-> <<>>, scored |-> NoScore]
    /\ workers = {} /\ task = [k \in 0..(Hdr.K - 1) |-> "none"] /\ gathered = 0
    /\ result = NoResult /\ err = "" /\ faults = 0 /\ exit = ""
    /\ statDig = <<>> /\ mrfDig = <<>> /\ subCov = <<>> /\ costDig = "none" /\ lastBeta = <<>> /\ began = -1 /\ singleton = {}

IsEvent(e) == l <= NEv /\ Ev.ev = e /\ l' = l + 1 /\ UNCHANGED tid
KeepT == UNCHANGED <<statDig, mrfDig, subCov, costDig, lastBeta, began, singleton>>

(* C13 at a phase boundary: K clusters, member lists = sorted sets of the points carrying the label,
   and the state handed INTO the phase still projects to what it did before the phase ran *)
PhaseCommon(out) ==
    /\ Clause("C13", "exactly_K_clusters", out.K = cfg.K /\ Len(out.members) = cfg.K)
    /\ Clause("C13", "member_lists_partition_the_points",
              /\ Len(out.labels) = cfg.T
              /\ MemberSets(out.members) = MembersOf(out.labels, cfg.K)
              /\ \A k \in 1..cfg.K : Sorted(out.members[k]))
    /\ Clause("C13", "phase_does_not_alter_its_input_state", Ev.in_same)

(* ------------------------------------------------------------------ front end *)
BoundaryIdx0 == {b - 1 : b \in BoundaryPairs(Hdr.stackedLens)}        \* 0-based pair index
TraceFront ==
    /\ IsEvent("front") /\ pc = "call"
    \* (checked at the first event so that the rejection carries this name: the harness's fault wrapper
    \*  fired during this call, yet the call came back with a result)
    /\ Clause("C20", "a_call_in_which_a_task_or_phase_failed_must_raise_not_return",
              ~(Hdr.faultFired /\ Hdr.outcome = "return"))
    /\ Clause("C12", "hyperparameters_reach_the_loop_unchanged",
              /\ Ev.args.K = Hdr.K /\ Ev.args.W = Hdr.W /\ Ev.args.limit = Hdr.limit /\ Ev.args.m = Hdr.m
              /\ Ev.args.biased = Hdr.biased /\ Ev.args.lamDig = Hdr.lamDig)
    /\ Clause("C04", "one_stacked_row_per_full_window", Ev.rows = Hdr.T)
    /\ (Ev.fe = "joint" =>
          /\ Clause("C07", "stacked_sizes", Ev.sizes = Hdr.stackedLens)
          /\ Clause("C07", "mask_zeros_exactly_on_boundary_pairs",
                    /\ Len(Ev.template) = Hdr.T
                    /\ \A i \in 1..(Hdr.T - 1) : (Ev.template[i] = 0) <=> (i \in BoundaryPairs(Hdr.stackedLens))))
    /\ UNCHANGED vars /\ KeepT

TraceInitLabels ==
    /\ IsEvent("init")
    /\ Clause("C13", "exactly_K_clusters", Ev.K = cfg.K /\ Len(Ev.members) = cfg.K)
    /\ Clause("C04", "one_label_per_stacked_row", Len(Ev.labels) = cfg.T /\ Ev.T = cfg.T)
    /\ InitLabels(Ev.labels)
    /\ Clause("C13", "member_lists_partition_the_points",
              MemberSets(Ev.members) = members' /\ \A k \in 1..cfg.K : Sorted(Ev.members[k]))
    /\ KeepT

TracePoolOpen == IsEvent("pool_open") /\ OpenPool(Ev.nproc) /\ KeepT

TraceRoundBegin ==
    /\ IsEvent("round_begin")
    /\ \/ /\ pc = "top" /\ Clause("C09", "round_counter", Ev.round = round)
          /\ UNCHANGED vars
       \/ /\ pc = "decide"
          /\ Clause("C09", "must_stop_when_labels_repeat", prev # labels)
          /\ Clause("C09", "at_most_iteration_limit_rounds", round + 1 < cfg.limit)
          /\ Continue
          /\ Clause("C09", "round_counter", Ev.round = round')
    /\ began' = Ev.round
    /\ UNCHANGED <<statDig, mrfDig, subCov, costDig, lastBeta, singleton>>

(* ------------------------------------------------------------------ repopulation *)
TraceRepop ==
    /\ IsEvent("phase") /\ Ev.name = "repopulate" /\ pc = "top" /\ began = round
    /\ Clause("C09", "repopulation_only_from_second_round", round > 0 /\ Ev.round = round)
    /\ Clause("C08", "before_is_current_labelling", Ev.before = labels)
    /\ IF RepopAllowed
       THEN /\ Clause("C20", "donor_shortage_must_raise_not_return", ~MustFail(Sizes(labels), cfg.K, cfg.m))
            /\ Clause("C08", "repopulation_relation",
                      IF Ev.spread_ties THEN \E rk \in Perms(cfg.K) : RepopRelation(labels, Ev.out.labels, rk)
                      ELSE RepopRelation(labels, Ev.out.labels, Ev.rank))
            /\ IF Ev.spread_ties
               THEN \E rk \in Perms(cfg.K) : Repop(Ev.out.labels, rk)
               ELSE Repop(Ev.out.labels, Ev.rank)
       ELSE /\ Clause("C09", "repopulation_only_when_a_cluster_has_fewer_than_2", Ev.out.labels = labels)
            /\ SkipRepop
    /\ PhaseCommon(Ev.out)
    /\ KeepT

(* ------------------------------------------------------------------ statistics *)
TraceStats ==
    /\ IsEvent("phase") /\ Ev.name = "statistics" /\ began = round
    /\ \/ pc = "stats"
       \/ /\ pc = "top"
          /\ Clause("C09", "repopulation_attempted_when_a_cluster_has_fewer_than_2", round = 0 \/ ~RepopAllowed)
    /\ Clause("C09", "fit_before_relabel_in_every_round", Ev.round = round)
    /\ Clause("C13", "phase_keeps_the_labelling", Ev.out.labels = labels)
    /\ Clause("C12", "fitted_to_exactly_its_own_windows_with_requested_estimator", AllOkInc(Ev.o1))
    \* (C09 states it too: each round fits the statistics to the CURRENT labels before relabelling - statistics kept
    \*  from an earlier labelling freeze the model and make the loop stop where fit-then-relabel is not at a fixed point)
    /\ Clause("C09", "each_round_fits_statistics_to_the_current_labels", AllOkInc(Ev.o1))
    /\ StatsBody
    /\ PhaseCommon(Ev.out)
    /\ statDig' = [k \in 1..cfg.K |-> [cov |-> Ev.out.cov[k], mean |-> Ev.out.mean[k]]]
    /\ subCov' = <<>>
    /\ singleton' = IF Hdr.biased THEN {} ELSE {k \in Cls : Cardinality(members[k]) = 1}
    /\ UNCHANGED <<mrfDig, costDig, lastBeta, began>>

(* ------------------------------------------------------------------ optimisation *)
TraceSubmit ==
    /\ IsEvent("submit")
    /\ Ev.k = Len(subCov)
    /\ Clause("C12", "optimiser_receives_this_rounds_covariance_of_this_cluster",
              Ev.covDig = statDig[Ev.k + 1].cov)
    /\ Clause("C12", "optimiser_receives_users_lambda_W_N_unchanged",
              Ev.lamDig = Hdr.lamDig /\ Ev.W = Hdr.W /\ Ev.N = Hdr.N)
    /\ IF Ev.k = 0 THEN SubmitAll ELSE (pc = "gather" /\ UNCHANGED vars)
    /\ subCov' = Append(subCov, Ev.covDig)
    /\ UNCHANGED <<statDig, mrfDig, costDig, lastBeta, began, singleton>>

WorkerExplains(cov, theta) ==
    \E i \in 1..Len(Hdr.workerResults) : Hdr.workerResults[i][1] = cov /\ Hdr.workerResults[i][2] = theta
TraceGather ==
    /\ IsEvent("gather")
    /\ Len(subCov) = cfg.K
    /\ Clause("C14", "results_collected_in_task_order", Ev.k = gathered)
    /\ Clause("C14", "result_k_was_computed_from_the_covariance_submitted_for_k",
              WorkerExplains(subCov[Ev.k + 1], Ev.thetaDig))
    /\ GatherGiven([task EXCEPT ![gathered] = "done"])           \* silent worker steps . Gather
    /\ KeepT

TraceOptimize ==
    /\ IsEvent("phase") /\ Ev.name = "optimize" /\ pc = "relabel"
    /\ Clause("C09", "fit_before_relabel_in_every_round", Ev.round = round)
    /\ Clause("C14", "one_task_per_cluster", Ev.nsubmit = cfg.K /\ Ev.ngather = cfg.K)
    /\ Clause("C13", "phase_keeps_the_labelling", Ev.out.labels = labels)
    /\ Clause("C13", "phase_keeps_the_fitted_statistics",
              \A k \in 1..cfg.K : Ev.out.cov[k] = statDig[k].cov /\ Ev.out.mean[k] = statDig[k].mean)
    /\ Clause("C03", "mrf_is_floor_of_what_the_optimiser_produced", \A k \in 1..cfg.K : Ev.o8[k] = "ok")
    /\ ClauseDev("C03", "mrf_finite_symmetric_positive_definite_with_finite_logdet",
                 Hdr.epsPos \/ \A k \in 1..cfg.K : Ev.o2[k] = "ok",
                 "F8_singleton_unbiased",         \* only the one-window clusters are affected
                 ~Hdr.biased /\ \A k \in 1..cfg.K : Ev.o2[k] # "ok" => Cardinality(members[k - 1]) = 1)
    /\ PhaseCommon(Ev.out)
    /\ mrfDig' = Ev.out.mrf
    /\ UNCHANGED vars
    /\ UNCHANGED <<statDig, subCov, costDig, lastBeta, began, singleton>>

(* ------------------------------------------------------------------ relabelling *)
TraceRelabel ==
    /\ IsEvent("phase") /\ Ev.name = "relabel"
    /\ Clause("C09", "fit_before_relabel_in_every_round", Ev.round = round /\ Len(mrfDig) = cfg.K)
    /\ Clause("C09", "labels_scored_against_this_rounds_mrfs_and_means",
              /\ Ev.scoredMrf = mrfDig
              /\ \A k \in 1..cfg.K : Ev.scoredMean[k] = statDig[k].mean
              /\ Ev.cacheOk)
    /\ Clause("C13", "phase_keeps_the_fitted_statistics",
              /\ Ev.out.mrf = mrfDig
              /\ \A k \in 1..cfg.K : Ev.out.cov[k] = statDig[k].cov /\ Ev.out.mean[k] = statDig[k].mean)
    /\ Clause("C05", "table_is_gaussian_log_density_of_each_window", AllOkInc(Ev.o7))
    /\ ClauseDev("C03", "likelihood_table_and_cost_finite", Hdr.epsPos \/ Ev.finite,
                 "F8_singleton_unbiased", singleton # {})
    /\ Clause("C09", "state_carries_the_kernels_labels", Ev.rlabels = Ev.out.labels)
    \* C07(b): the switching cost the labelling step actually received
    /\ (Len(Hdr.stackedLens) > 1 =>
          ClauseDev("C07", "switching_cost_zero_on_every_boundary_pair",
                    BoundaryIdx0 \subseteq SetOf(Ev.betaZeroAt),
                    "F2b_unmasked_beta", Ev.betaDig = Hdr.betaDig))      \* exactly the caller's, unmasked
    /\ Clause("C07", "switching_cost_elsewhere_is_the_callers",
              Len(Hdr.stackedLens) = 1 \/ Hdr.betaZero \/ SetOf(Ev.betaZeroAt) \subseteq BoundaryIdx0)
    \* C01 / C09 / C07(c): minimum-cost labelling FOR THE SWITCHING COST ACTUALLY USED (limb arithmetic)
    /\ (Ev.finite =>
          LET tc == LTotalCost(Ev.costL, Ev.betaL, Ev.rlabels)
              mn == LMinCostDP(Ev.costL, Ev.betaL, cfg.K)
              P1 == \A p \in 1..Len(Ev.rlabels) : Ev.rlabels[p] \in 0..(cfg.K - 1)
          IN  /\ Clause("C01", "labels_in_range", P1)
              /\ Clause("C01", "reported_is_cost_of_returned_sequence", LWithin(Ev.reportedL, tc, Ev.slack))
              /\ Clause("C01", "returned_sequence_is_minimum_cost", LLeq(tc, LAdd(mn, LInt(Ev.slack))))
              /\ Clause("C09", "returned_labelling_is_minimum_cost_for_this_rounds_model",
                        P1 /\ LLeq(tc, LAdd(mn, LInt(Ev.slack))))
              /\ Clause("C07", "optimal_and_consistent_for_the_switching_cost_used",
                        P1 /\ LLeq(tc, LAdd(mn, LInt(Ev.slack))) /\ LWithin(Ev.reportedL, tc, Ev.slack)))
    /\ Relabel(Ev.out.labels)
    /\ PhaseCommon(Ev.out)
    /\ costDig' = Ev.out.cost
    /\ lastBeta' = [zeroAt |-> Ev.betaZeroAt, allEqual |-> Ev.betaAllEqual]
    /\ UNCHANGED <<statDig, mrfDig, subCov, began, singleton>>

(* ------------------------------------------------------------------ stopping *)
TraceConverged ==
    /\ IsEvent("converged") /\ pc = "decide"
    /\ Clause("C09", "early_stop_only_when_two_consecutive_labellings_are_identical", prev = labels)
    /\ Converge /\ KeepT

TraceLoopExit ==
    /\ IsEvent("loop_exit")
    /\ \/ /\ pc = "closing" /\ exit = "converged" /\ UNCHANGED vars
       \/ /\ pc = "decide"
          /\ Clause("C09", "stops_early_only_at_a_fixed_point", round + 1 >= cfg.limit)
          /\ Clause("C09", "must_stop_when_labels_repeat", prev # labels)
          /\ LimitReached
    /\ Clause("C09", "round_counter", Ev.round = round)
    /\ KeepT

TracePoolClosed ==
    /\ IsEvent("pool_closed") /\ ClosePool
    /\ Clause("C20", "no_worker_process_left_behind", Ev.alive = 0)
    /\ KeepT

TraceFinal ==
    /\ IsEvent("final") /\ pc = "metrics"
    /\ Clause("C09", "final_model_is_last_rounds_model",
              Ev.model.labels = labels /\ Ev.model.mrf = mrfDig /\ Ev.model.cost = costDig)
    /\ UNCHANGED vars /\ KeepT

(* ------------------------------------------------------------------ return *)
RECURSIVE ConcatAll(_, _, _)
ConcatAll(ss, i, acc) == IF i > Len(ss) THEN acc ELSE ConcatAll(ss, i + 1, acc \o ss[i])
Strip(L, W) == SubSeq(L, Front(W) + 1, Len(L) - Back(W))
MarginOK(L, W, K) ==
    /\ \A i \in 1..Len(L) : (L[i] = -1) <=> (i <= Front(W) \/ i > Len(L) - Back(W))
    /\ \A i \in 1..Len(L) : L[i] = -1 \/ L[i] \in 0..(K - 1)

(* switching cost over consecutive pairs; `within` restricts to pairs inside one series *)
RECURSIVE SwitchCount(_, _, _, _, _)
SwitchCount(L, lens, within, i, acc) ==
    IF i >= Len(L) THEN acc
    ELSE SwitchCount(L, lens, within, i + 1,
                     acc + (IF L[i] # L[i + 1] /\ (~within \/ i \notin BoundaryPairs(lens)) THEN 1 ELSE 0))

(* the same with a per-pair cost bp (limbs): sum of bp[i] over the counted pairs *)
RECURSIVE SwitchSum(_, _, _, _, _, _)
SwitchSum(L, lens, within, bp, i, acc) ==
    IF i >= Len(L) THEN acc
    ELSE SwitchSum(L, lens, within, bp, i + 1,
                   IF L[i] # L[i + 1] /\ (~within \/ i \notin BoundaryPairs(lens)) THEN LAdd(acc, bp[i]) ELSE acc)

LSorted(s) == SortSeq(s, LAMBDA a, b : LLt(a, b))
LMedian2(s) ==         \* twice the median of a non-empty sequence of limbs
    LET t == LSorted(s)  n == Len(t)
    IN  IF n % 2 = 1 THEN LScale(t[(n + 1) \div 2], 2) ELSE LAdd(t[n \div 2], t[n \div 2 + 1])
LMultiset(s) == LSorted(s)

TraceReturn ==
    /\ IsEvent("return") /\ pc = "metrics"
    /\ LET W == Hdr.W  K == Hdr.K  NW == Hdr.N * Hdr.W
           per == Ev.labelsPerSeries
           flat == ConcatAll([i \in 1..Len(per) |-> Strip(per[i], W)], 1, <<>>)
           n == Cardinality({p \in 1..Len(labels) : labels[p] >= 0})
       IN
       \* ---- C09: what is returned is what the last round produced and scored
       /\ Clause("C09", "returned_labels_are_last_rounds", Ev.modelLabels = labels /\ flat = labels)
       /\ Clause("C09", "returned_mrfs_are_last_rounds", Ev.mrfDigs = mrfDig /\ Ev.modelMrfDigs = mrfDig)
       /\ Clause("C09", "returned_cost_is_last_rounds", Ev.costDig = costDig /\ Ev.modelCostDig = costDig)
       /\ Clause("C09", "returned_model_is_what_was_scored",
                 scored = mrf /\ \A k \in 1..K : Ev.modelMeanDigs[k] = statDig[k].mean
                                                 /\ Ev.modelCovDigs[k] = statDig[k].cov)
       \* ---- C04: shape of the result
       /\ Clause("C04", "one_label_list_per_series_in_order_with_its_own_length",
                 Len(per) = Len(Hdr.lens) /\ \A i \in 1..Len(per) : Len(per[i]) = Hdr.lens[i])
       /\ Clause("C04", "margin_exactly_floor_front_and_rest_back",
                 Ev.labelsIntegral /\ \A i \in 1..Len(per) : MarginOK(per[i], W, K))
       /\ Clause("C04", "labels_are_the_joint_labelling_split_by_series", flat = labels)
       /\ Clause("C04", "K_mrfs_each_NW_by_NW_and_echo",
                 /\ Ev.K = K /\ Ev.W = W /\ Len(Ev.mrfShapes) = K
                 /\ \A k \in 1..K : Ev.mrfShapes[k] = <<NW, NW>>)
       \* ---- C03 / C05 / C16 / C17: values
       /\ ClauseDev("C03", "every_float_in_the_result_finite", Hdr.epsPos \/ Ev.allFinite,
                    "F8_singleton_unbiased", singleton # {})
       /\ ClauseDev("C03", "returned_mrfs_positive_definite",
                    Hdr.epsPos \/ \A k \in 1..K : Ev.o2final[k] = "ok",
                    "F8_singleton_unbiased", \A k \in 1..K : Ev.o2final[k] # "ok" => (k - 1) \in singleton)
       /\ Clause("C05", "per_point_values_are_log_densities_under_own_cluster",
                 \A k \in 1..K : Ev.o7final[k] \in {"ok", "inc", "empty"})
       /\ Clause("C05", "result_lists_the_log_density_of_every_labelled_point_and_aggregates_exactly_those",
                 Hdr.scripted \/ Ev.o7result \in {"ok", "inc"})
       /\ Clause("C16", "bic_matches_definition", OkInc(Ev.bicOk))
       /\ Clause("C16", "bic_finite_when_mrfs_positive_definite",
                 (\A k \in 1..K : Ev.o2final[k] = "ok") => Ev.bicFinite)
       /\ ((exit = "converged" /\ Ev.allNonEmpty /\ K >= 2) =>
              ClauseDev("C17", "calinski_harabasz_matches_definition_with_per_column_centroid",
                        OkInc(Ev.chOk), "F5_scalar_centre", Ev.chScalarCentre))
       \* ---- C06: accounting
       /\ Clause("C06", "one_likelihood_entry_per_labelled_point", Ev.nAll = n)
       /\ Clause("C06", "cluster_lists_hold_exactly_the_points_labelled_with_the_cluster",
                 \* (the internal list of a cluster that owns no point may hold a placeholder: only the
                 \*  result fields matter there - mean = median = 0, checked below)
                 \A k \in 1..K : members[k - 1] = {} \/ Ev.clusterLens[k] = Cardinality(members[k - 1]))
       /\ (Ev.allFinite =>
             LET sumAll == LSum(Ev.allLL)
                 sw(within) == SwitchSum(labels, Hdr.stackedLens, within, Ev.betaPairsL, 1, LZero)
             IN
             /\ Clause("C06", "overall_sum_is_sum_of_entries", LWithin(Ev.sumLL, sumAll, Ev.slack))
             /\ Clause("C06", "overall_mean_is_mean_of_entries",
                       Ev.nAll > 0 /\ LWithin(LScale(Ev.meanLL, Ev.nAll), sumAll, Ev.slack + Ev.nAll))
             /\ Clause("C06", "overall_median_is_median_of_entries",
                       Ev.nAll > 0 /\ LWithin(LScale(Ev.medianLL, 2), LMedian2(Ev.allLL), 4))
             /\ Clause("C06", "entries_are_the_union_of_the_cluster_lists",
                       LMultiset(Ev.allLL) =
                          LMultiset(ConcatAll([k \in 1..K |-> IF members[k - 1] = {} THEN <<>> ELSE Ev.clusterLL[k]], 1, <<>>)))
             /\ Clause("C06", "cluster_mean_and_median_over_own_points_zero_if_none",
                       \A k \in 1..K :
                          IF members[k - 1] = {}
                          THEN Ev.clusterMean[k] = LZero /\ Ev.clusterMedian[k] = LZero
                          ELSE /\ LWithin(LScale(Ev.clusterMean[k], Len(Ev.clusterLL[k])),
                                          LSum(Ev.clusterLL[k]), Ev.slack + Len(Ev.clusterLL[k]))
                               /\ LWithin(LScale(Ev.clusterMedian[k], 2), LMedian2(Ev.clusterLL[k]), 4))
             /\ ClauseDev("C06", "cost_is_minus_loglik_plus_within_series_switching_cost",
                          LWithin(Ev.cost, LAdd(LNeg(Ev.sumLL), sw(TRUE)), Ev.slack),
                          "F2b_unmasked_beta",
                          LWithin(Ev.cost, LAdd(LNeg(Ev.sumLL), sw(FALSE)), Ev.slack))
             /\ ClauseDev("C07", "cost_counts_within_series_pairs_only",
                          LWithin(Ev.cost, LAdd(LNeg(Ev.sumLL), sw(TRUE)), Ev.slack),
                          "F2b_unmasked_beta",
                          LWithin(Ev.cost, LAdd(LNeg(Ev.sumLL), sw(FALSE)), Ev.slack)))
       \* ---- C19 / C20
       /\ Clause("C19", "caller_arrays_unchanged_after_return", Ev.args_same)
       /\ Clause("C20", "no_worker_process_left_behind", Ev.children = 0)
       \* a task or phase function raised during this call (the harness's wrapper marks it): the call must
       \* not come back with a result
       /\ Clause("C20", "a_call_in_which_a_task_or_phase_failed_must_raise_not_return", ~Hdr.faultFired)
    /\ Return /\ KeepT

(* ------------------------------------------------------------------ raise *)
TraceRaise ==
    /\ IsEvent("raise")
    /\ LET f == Hdr.fault
       IN
       /\ IF f.kind = "task"
          THEN /\ Clause("C20", "task_failure_surfaces_while_gathering", pc = "gather" \/ pc = "submit")
               /\ Clause("C20", "original_error_is_raised", Ev.type = f.exc)
          ELSE IF f.kind = "phase"
          THEN Clause("C20", "original_error_is_raised", Ev.type = "InjectedFault")
          ELSE IF f.kind = "donor"
          THEN /\ Clause("C20", "donor_shortage_detected_in_repopulation",
                         pc = "top" /\ RepopAllowed /\ MustFail(Sizes(labels), cfg.K, cfg.m))
               /\ Clause("C20", "runtime_error_names_the_donor_shortage",
                         Ev.type = "RuntimeError" /\ Ev.names_donor_shortage)
          ELSE IF f.kind = "wrong_front_end"
          THEN Clause("C20", "type_error_names_the_right_entry_point",
                      Ev.type = "TypeError" /\ Ev.names_other_entry_point /\ pc = "call")
          ELSE IF f.kind = "invalid_argument"
          THEN Clause("C20", "invalid_arguments_are_refused_with_an_exception", Ev.type # "")
          ELSE IF f.kind = "scripted"
          \* a scripted run (harness/scripted.py) may stop only where the model says the loop cannot go on:
          \* no cluster holds 2m points when a refill is due (C08: otherwise repopulation must return), or the
          \* script's own initial labelling leaves a cluster empty in round 0 (the library refuses that).
          \* Any other exception is outside every listed property: it is reported as a machinery problem.
          THEN IF pc = "top" /\ round > 0 /\ RepopAllowed
               THEN /\ Clause("C08", "donor_shortage_error_only_when_no_cluster_holds_2m",
                              MustFail(Sizes(labels), cfg.K, cfg.m))
                    /\ Clause("C20", "runtime_error_names_the_donor_shortage",
                              Ev.type = "RuntimeError" /\ Ev.names_donor_shortage)
               ELSE Clause("MACH", "scripted_run_raised_where_the_model_has_no_failing_step",
                           pc = "top" /\ round = 0 /\ \E k \in Cls : members[k] = {})
          ELSE Clause("C20", "unexpected_exception", FALSE)
       /\ Clause("C20", "no_worker_process_left_behind", Ev.children = 0)
       /\ Clause("C20", "call_does_not_hang", Ev.elapsedMs <= Hdr.timeLimitMs)
       /\ Clause("C19", "caller_arrays_unchanged_after_raise", Ev.args_same)
       /\ FailAndRaise(Ev.type)
    /\ KeepT

TraceNext == \/ TraceFront \/ TraceInitLabels \/ TracePoolOpen \/ TraceRoundBegin \/ TraceRepop
             \/ TraceStats \/ TraceSubmit \/ TraceGather \/ TraceOptimize \/ TraceRelabel
             \/ TraceConverged \/ TraceLoopExit \/ TracePoolClosed \/ TraceFinal \/ TraceReturn
             \/ TraceRaise

(* every state invariant of TiccLoop, evaluated on the state each accepted event leads to *)
InvClauses ==
    /\ Clause("C13", "inv_partition", C13_Partition)
    /\ Clause("C09", "inv_bounded", C09_Bounded)
    /\ Clause("C09", "inv_early_stop_is_fixpoint", C09_EarlyStopIsFixpoint)
    /\ Clause("C09", "inv_limit_exit", C09_LimitExit)
    /\ Clause("C09", "inv_returns_last_round", C09_ReturnsLastRound)
    /\ Clause("C09", "inv_fit_before_relabel", C09_FitBeforeRelabel)
    /\ Clause("C12", "inv_fitted_to_members", C12_FittedToMembers)
    /\ Clause("C12", "inv_mrf_from_this_rounds_stats", C12_MrfFromThisRoundsStats)
    /\ Clause("C14", "inv_gather_by_index", C14_GatherByIndex)
    /\ Clause("C20", "inv_no_result_on_error", C20_NoResultOnError)
    /\ Clause("C20", "inv_no_partial", C20_NoPartial)

TraceSpec == TraceInit /\ [][TraceNext /\ InvClauses']_allvars

Accept == (l = NEv + 1) => TLCSet(1, TLCGet(1) \cup {tid})
Post == PrintT(<<"ACCEPTED", TLCGet(1)>>)
=============================================================================
