----------------------------- MODULE TiccLoop -----------------------------
(* The TICC main loop (main_loop.fit_stacked_data) with its worker pool, as one state machine.

   Opaque computations (GMM initial labels, sample statistics, the ADMM solver, likelihoods, the
   labelling kernel, random.sample) are PARAMETERS of the actions: the exhaustive model quantifies
   over every value they could produce, the trace specification (TraceTiccLoop) binds them to what
   the real code logged.  What the specification fixes is everything the listed properties state
   about the loop: phase order, the bound on rounds, the stopping rule, when repopulation may act,
   provenance (which statistics an MRF was optimised from, which MRFs a labelling was scored with,
   which round the returned values come from), the partition invariant, gathering by task index,
   error propagation and the fate of the worker processes.

   Properties: C09 (bounded / fixed point / returns what it scored / repopulation rule), C12
   (provenance), C13 (partition at phase boundaries), C14 (gather by index under every completion
   order), C20 (failures raise, no partial result, no worker left, never hangs).                 *)
EXTENDS Integers, Sequences, FiniteSets, TLC, RepopOps

CONSTANTS Configs,        \* set of records [T, K, limit, m, maxProcs, maxFaults]
          FixedCode       \* TRUE: the pool is closed on every exit path; FALSE: only on success

VARIABLES cfg,            \* the configuration of this call
          pc, round,
          labels,         \* sequence 1..T of cluster ids (<<>> before initialisation)
          members,        \* [0..K-1 -> SUBSET 1..T]: the per-cluster membership the model state keeps
          prev,           \* labelling the stopping rule compares with (<<>> = None)
          stats,          \* [k -> [from, rnd]]: the membership / round the mean+covariance came from
          mrf,            \* [k -> [stats, rnd]]: the statistics / round each MRF was optimised from
          scored,         \* the mrf function the last likelihood table was computed from
          costOf,         \* [labels, scored]: what the reported assignment cost belongs to
          workers,        \* worker processes alive
          task,           \* [k -> "none"|"queued"|"running"|"done"|"failed"]
          gathered,       \* number of task results collected so far (collected strictly in index order)
          result, err, faults, exit
vars == <<cfg, pc, round, labels, members, prev, stats, mrf, scored, costOf,
          workers, task, gathered, result, err, faults, exit>>

Pts == 1..cfg.T
Cls == 0..(cfg.K - 1)
MembersOf(L, K) == [k \in 0..(K - 1) |-> {p \in 1..Len(L) : L[p] = k}]
NoStats == [from |-> {}, rnd |-> -1]
NoMrf   == [stats |-> NoStats, rnd |-> -1]
NoResult == [labels |-> <<>>, mrf |-> <<>>, cost |-> <<>>, rnd |-> -1]
NoScore == <<>>

Init == /\ cfg \in Configs
        /\ pc = "call" /\ round = 0
        /\ labels = <<>> /\ members = [k \in 0..(cfg.K - 1) |-> {}] /\ prev = <<>>
        /\ stats = [k \in 0..(cfg.K - 1) |-> NoStats] /\ mrf = [k \in 0..(cfg.K - 1) |-> NoMrf]
        /\ scored = NoScore /\ costOf = [labels |-> <<>>, scored |-> NoScore]
        /\ workers = {} /\ task = [k \in 0..(cfg.K - 1) |-> "none"] /\ gathered = 0
        /\ result = NoResult /\ err = "" /\ faults = 0 /\ exit = ""

Pool == <<workers, task, gathered>>
Model == <<labels, members, stats, mrf, scored, costOf>>

(* ---- initial labels: anything the mixture model says ---- *)
InitLabels(L) ==
    /\ pc = "call"
    /\ Len(L) = cfg.T /\ \A p \in 1..cfg.T : L[p] \in Cls
    /\ labels' = L /\ members' = MembersOf(L, cfg.K)
    /\ pc' = "open"
    /\ UNCHANGED <<cfg, round, prev, stats, mrf, scored, costOf, workers, task, gathered, result, err,
                   faults, exit>>

OpenPool(P) ==
    /\ pc = "open" /\ P \in 1..cfg.maxProcs
    /\ workers' = 1..P
    /\ pc' = "top"
    /\ UNCHANGED <<cfg, round, labels, members, prev, stats, mrf, scored, costOf, task, gathered,
                   result, err, faults, exit>>

(* ---- repopulation: only from the second round on, only when some cluster holds < 2 points ---- *)
Sizes(L) == SizesOf(L, cfg.K)
RepopAllowed == round > 0 /\ \E k \in Cls : Cardinality(members[k]) < 2
RepopRelation(L, L2, rank) ==          \* the WHAT relation of Repopulate, lifted to points
    LET sb == Sizes(L)  sa == Sizes(L2)
    IN  /\ Len(L2) = Len(L) /\ \A p \in 1..Len(L2) : L2[p] \in Cls
        /\ ~MustFail(sb, cfg.K, cfg.m)
        /\ sa = ExpectedSizes(sb, cfg.K, cfg.m, rank)
        /\ \A p \in 1..Len(L) : L2[p] # L[p] => sb[L2[p]] < 2 /\ sb[L[p]] >= 2 * cfg.m

SkipRepop ==                            \* round 0, or nobody is under-populated: state untouched
    /\ pc = "top" /\ ~RepopAllowed
    /\ pc' = "stats"
    /\ UNCHANGED <<cfg, round, Model, prev, Pool, result, err, faults, exit>>
Repop(L2, rank) ==
    /\ pc = "top" /\ RepopAllowed
    /\ RepopRelation(labels, L2, rank)
    /\ labels' = L2 /\ members' = MembersOf(L2, cfg.K)
    /\ pc' = "stats"
    /\ UNCHANGED <<cfg, round, prev, stats, mrf, scored, costOf, Pool, result, err, faults, exit>>
RepopFails ==
    /\ pc = "top" /\ RepopAllowed /\ MustFail(Sizes(labels), cfg.K, cfg.m)
    /\ err' = "RuntimeError" /\ pc' = "failing"
    /\ UNCHANGED <<cfg, round, Model, prev, Pool, result, faults, exit>>

(* ---- statistics: every cluster is fitted to exactly its current members ---- *)
StatsBody ==                 \* (the trace specification reuses the body: round 0 never enters "top")
    /\ \A k \in Cls : members[k] # {}
    /\ stats' = [k \in Cls |-> [from |-> members[k], rnd |-> round]]
    /\ pc' = "submit"
    /\ UNCHANGED <<cfg, round, labels, members, prev, mrf, scored, costOf, Pool, result, err, faults, exit>>
Stats == pc = "stats" /\ StatsBody
StatsFails ==                            \* an empty cluster trips the library's own assertion
    /\ pc = "stats" /\ \E k \in Cls : members[k] = {}
    /\ err' = "AssertionError" /\ pc' = "failing"
    /\ UNCHANGED <<cfg, round, Model, prev, Pool, result, faults, exit>>

(* ---- optimisation: one task per cluster; workers take them in any order ---- *)
SubmitAll ==
    /\ pc = "submit"
    /\ task' = [k \in Cls |-> "queued"] /\ gathered' = 0
    /\ pc' = "gather"
    /\ UNCHANGED <<cfg, round, Model, prev, workers, result, err, faults, exit>>
Busy == Cardinality({k \in Cls : task[k] = "running"})
Start(k) ==
    /\ pc \in {"gather", "failing"} /\ task[k] = "queued" /\ Busy < Cardinality(workers)
    /\ task' = [task EXCEPT ![k] = "running"]
    /\ UNCHANGED <<cfg, pc, round, Model, prev, workers, gathered, result, err, faults, exit>>
Finish(k) ==
    /\ task[k] = "running" /\ workers # {}
    /\ task' = [task EXCEPT ![k] = "done"]
    /\ UNCHANGED <<cfg, pc, round, Model, prev, workers, gathered, result, err, faults, exit>>
FailTask(k) ==
    /\ task[k] = "running" /\ workers # {} /\ faults < cfg.maxFaults
    /\ task' = [task EXCEPT ![k] = "failed"] /\ faults' = faults + 1
    /\ UNCHANGED <<cfg, pc, round, Model, prev, workers, gathered, result, err, exit>>
(* the parent collects results strictly by index; each result is stored with the cluster it was
   submitted for, whatever the completion order *)
GatherGiven(tk) ==           \* tk: the task table once the (unobserved) worker steps have happened
    /\ pc = "gather" /\ gathered < cfg.K /\ tk[gathered] = "done"
    /\ mrf' = [mrf EXCEPT ![gathered] = [stats |-> stats[gathered], rnd |-> round]]
    /\ gathered' = gathered + 1
    /\ pc' = IF gathered + 1 = cfg.K THEN "relabel" ELSE "gather"
    /\ task' = tk
    /\ UNCHANGED <<cfg, round, labels, members, prev, stats, scored, costOf, workers, result, err,
                   faults, exit>>
Gather == GatherGiven(task)
GatherFails ==
    /\ pc = "gather" /\ gathered < cfg.K /\ task[gathered] = "failed"
    /\ err' = "TaskError" /\ pc' = "failing"
    /\ UNCHANGED <<cfg, round, Model, prev, Pool, result, faults, exit>>

(* ---- relabelling: any labelling (optimality is Labelling's business), scored against the MRFs
        just gathered ---- *)
Relabel(L2) ==
    /\ pc = "relabel"
    /\ Len(L2) = cfg.T /\ \A p \in 1..cfg.T : L2[p] \in Cls
    /\ labels' = L2 /\ members' = MembersOf(L2, cfg.K)
    /\ scored' = mrf /\ costOf' = [labels |-> L2, scored |-> mrf]
    /\ pc' = "decide"
    /\ UNCHANGED <<cfg, round, prev, stats, mrf, Pool, result, err, faults, exit>>

(* ---- stopping rule ---- *)
Converge ==
    /\ pc = "decide" /\ prev = labels
    /\ exit' = "converged" /\ pc' = "closing"
    /\ UNCHANGED <<cfg, round, Model, prev, Pool, result, err, faults>>
Continue ==
    /\ pc = "decide" /\ prev # labels /\ round + 1 < cfg.limit
    /\ prev' = labels /\ round' = round + 1 /\ pc' = "top"
    /\ UNCHANGED <<cfg, Model, Pool, result, err, faults, exit>>
LimitReached ==
    /\ pc = "decide" /\ prev # labels /\ round + 1 >= cfg.limit
    /\ prev' = labels /\ exit' = "limit" /\ pc' = "closing"
    /\ UNCHANGED <<cfg, round, Model, Pool, result, err, faults>>

(* ---- a fault inside a phase function of the parent ---- *)
PhaseFault ==
    /\ pc \in {"top", "stats", "submit", "relabel"} /\ faults < cfg.maxFaults
    /\ faults' = faults + 1 /\ err' = "PhaseError" /\ pc' = "failing"
    /\ UNCHANGED <<cfg, round, Model, prev, Pool, result, exit>>

ClosePool ==
    /\ pc = "closing"
    /\ workers' = {} /\ pc' = "metrics"
    /\ UNCHANGED <<cfg, round, Model, prev, task, gathered, result, err, faults, exit>>
Return ==
    /\ pc = "metrics"
    /\ result' = [labels |-> labels, mrf |-> mrf, cost |-> costOf, rnd |-> round]
    /\ pc' = "returned"
    /\ UNCHANGED <<cfg, round, Model, prev, Pool, err, faults, exit>>
Raise ==
    /\ pc = "failing"
    /\ workers' = IF FixedCode THEN {} ELSE workers
    /\ pc' = "raised"
    /\ UNCHANGED <<cfg, round, Model, prev, task, gathered, result, err, faults, exit>>

(* an error and its propagation as one step (how an observer of the call sees it) *)
FailAndRaise(e) ==
    /\ pc \notin {"returned", "raised"}            \* (the quality measures computed after the loop can raise too)
    /\ err' = e /\ pc' = "raised"
    /\ workers' = IF FixedCode THEN {} ELSE workers
    /\ UNCHANGED <<cfg, round, Model, prev, task, gathered, result, faults, exit>>

Perms(K) == {s \in [1..K -> 0..(K - 1)] : \A a, b \in 1..K : a # b => s[a] # s[b]}
AllL == [1..cfg.T -> 0..(cfg.K - 1)]

Next == \/ \E L \in AllL : InitLabels(L)
        \/ \E P \in 1..cfg.maxProcs : OpenPool(P)
        \/ SkipRepop \/ RepopFails
        \/ \E L2 \in AllL : \E rk \in Perms(cfg.K) : Repop(L2, rk)
        \/ Stats \/ StatsFails \/ SubmitAll
        \/ \E k \in Cls : Start(k) \/ Finish(k) \/ FailTask(k)
        \/ Gather \/ GatherFails
        \/ \E L2 \in AllL : Relabel(L2)
        \/ Converge \/ Continue \/ LimitReached
        \/ PhaseFault \/ ClosePool \/ Return \/ Raise

Spec == Init /\ [][Next]_vars
FairSpec == Spec /\ WF_vars(Next)

(* ------------------------------- properties ------------------------------- *)
Initialised == pc \notin {"call"}
(* C13: labels and membership always describe one partition, K clusters *)
C13_Partition == Initialised => /\ DOMAIN members = Cls
                                /\ members = MembersOf(labels, cfg.K)
(* C09 *)
C09_Bounded == round < cfg.limit
C09_EarlyStopIsFixpoint == (exit = "converged") => prev = labels
C09_LimitExit == (exit = "limit") => round + 1 = cfg.limit
C09_ReturnsLastRound ==
    pc = "returned" =>
        /\ result.labels = labels /\ result.mrf = mrf /\ result.cost = costOf
        /\ costOf.labels = labels /\ costOf.scored = mrf /\ scored = mrf
        /\ \A k \in Cls : mrf[k].rnd = round /\ mrf[k].stats.rnd = round
        /\ result.rnd = round /\ round >= 0
C09_AtLeastOneRound == pc = "returned" => \A k \in Cls : mrf[k].rnd >= 0
(* repopulation may change labels only from round 1 on and only with an under-populated cluster *)
C09_RepopRule == [][(pc = "top" /\ labels' # labels) => RepopAllowed]_vars
(* labels change only in InitLabels, Repop and Relabel *)
C09_FitBeforeRelabel == pc = "decide" => \A k \in Cls : mrf[k].rnd = round /\ mrf[k].stats.rnd = round
(* C12: statistics are those of exactly the current members when the optimiser receives them *)
C12_FittedToMembers == pc \in {"submit", "gather"} => \A k \in Cls : stats[k].from = members[k] /\ stats[k].rnd = round
C12_MrfFromThisRoundsStats == pc \in {"relabel", "decide"} => \A k \in Cls : mrf[k].stats = stats[k]
(* C14: whatever the completion order, result k belongs to cluster k *)
C14_GatherByIndex == \A k \in Cls : (mrf[k].rnd = round /\ pc \in {"gather", "relabel", "decide"} /\ k < gathered)
                                        => mrf[k].stats = stats[k]
(* C20 *)
C20_NoResultOnError == (err # "") => result = NoResult
C20_ErrorRaises == (err # "") => pc \in {"failing", "raised"}
C20_NoLeak == pc \in {"returned", "raised"} => workers = {}
C20_NoPartial == pc = "raised" => result = NoResult
Terminates == <>(pc \in {"returned", "raised"})
=============================================================================
