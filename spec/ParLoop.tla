------------------------------ MODULE ParLoop ------------------------------
(* The parallel likelihood loop (likelihood.all_points_all_clusters_log_likelihood_fast, a Numba
   prange over points): the points are split into chunks, one per thread; each thread computes the
   cells (point, cluster) of its own points and writes each result into its own cell of the table.
   Because the written cells are disjoint, the table does not depend on the number of threads or on
   how their steps interleave (C15).  With SharedAcc = TRUE the loop instead accumulates into one
   shared variable with a non-atomic read-modify-write - the realistic way to break the property -
   and TLC exhibits the lost update.                                                             *)
EXTENDS Integers, Sequences, FiniteSets, TLC
CONSTANTS NPoints, NClusters, MaxThreads, SharedAcc
VARIABLES nthreads, owner, table, pending, acc, tmp
vars == <<nthreads, owner, table, pending, acc, tmp>>
Points == 1..NPoints
Cls == 1..NClusters
F(p, c) == 10 * p + c                              \* the cell's value is a function of (p, c) only
Unset == -1

(* static chunking: contiguous blocks, like Numba's default scheduler *)
ChunkOf(p, n) == ((p - 1) * n) \div NPoints + 1

Init == /\ nthreads \in 1..MaxThreads
        /\ owner = [p \in Points |-> ChunkOf(p, nthreads)]
        /\ table = [p \in Points |-> [c \in Cls |-> Unset]]
        /\ pending = [t \in 1..MaxThreads |-> {<<p, c>> \in Points \X Cls : ChunkOf(p, nthreads) = t}]
        /\ acc = 0 /\ tmp = [t \in 1..MaxThreads |-> Unset]

WriteCell(t) ==
    /\ ~SharedAcc /\ pending[t] # {}
    /\ \E pc \in pending[t] :
         /\ table' = [table EXCEPT ![pc[1]][pc[2]] = F(pc[1], pc[2])]
         /\ pending' = [pending EXCEPT ![t] = @ \ {pc}]
    /\ UNCHANGED <<nthreads, owner, acc, tmp>>
(* the broken variant: acc := acc + F(p,c) as two steps *)
ReadAcc(t) ==
    /\ SharedAcc /\ pending[t] # {} /\ tmp[t] = Unset
    /\ tmp' = [tmp EXCEPT ![t] = acc]
    /\ UNCHANGED <<nthreads, owner, table, pending, acc>>
WriteAcc(t) ==
    /\ SharedAcc /\ tmp[t] # Unset
    /\ \E pc \in pending[t] :
         /\ acc' = tmp[t] + F(pc[1], pc[2])
         /\ pending' = [pending EXCEPT ![t] = @ \ {pc}]
    /\ tmp' = [tmp EXCEPT ![t] = Unset]
    /\ UNCHANGED <<nthreads, owner, table>>
Next == \E t \in 1..MaxThreads : WriteCell(t) \/ ReadAcc(t) \/ WriteAcc(t)
Spec == Init /\ [][Next]_vars

Done == \A t \in 1..MaxThreads : pending[t] = {}
RECURSIVE SumSet(_)
SumSet(S) == IF S = {} THEN 0 ELSE LET x == CHOOSE y \in S : TRUE IN F(x[1], x[2]) + SumSet(S \ {x})
TableIndependentOfSchedule == (Done /\ ~SharedAcc) => \A p \in Points : \A c \in Cls : table[p][c] = F(p, c)
NoCellWrittenTwice == \A p \in Points : \A c \in Cls :
                          table[p][c] # Unset => <<p, c>> \notin pending[owner[p]]
EveryCellHasOneOwner == \A p \in Points : owner[p] \in 1..nthreads
AccumulatorIndependentOfSchedule == (Done /\ SharedAcc) => acc = SumSet(Points \X Cls)
=============================================================================
