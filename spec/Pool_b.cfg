SPECIFICATION FairSpec
CONSTANTS
  K = 4
  MaxP = 2
  Rounds = 1
  MaxFaults = 1
  FixedCode = TRUE
INVARIANT ResultBelongsToItsCluster
INVARIANT CompletedRoundsAreRight
INVARIANT FailureRaises
INVARIANT ErrorMeansNoReturn
INVARIANT AtMostNprocRunning
INVARIANT NoWorkerLeft
PROPERTY Terminates
