---------------------------- MODULE IndexOps ----------------------------
(* Pure operators about the compressed upper triangle of an n x n symmetric matrix and the
   Toeplitz classes (block, row, column) of an (N*W) x (N*W) block-Toeplitz matrix (C11).
   Everything is 0-based, like the library.                                                *)
EXTENDS Integers, Sequences, FiniteSets

TriSize(n) == (n * (n + 1)) \div 2

(* row-major rank of (r,c), r <= c, BY DEFINITION: how many upper-triangle cells precede it *)
RECURSIVE RowsBeforeAcc(_, _, _, _)
RowsBeforeAcc(n, r, i, acc) == IF i >= r THEN acc ELSE RowsBeforeAcc(n, r, i + 1, acc + (n - i))
RankByDef(n, r, c) == RowsBeforeAcc(n, r, 0, 0) + (c - r)
(* the closed form the library uses; TLC checks ClosedForm = RankByDef for every n <= 150 *)
RankClosed(n, r, c) == n * (r + 1) - ((r * (r + 1)) \div 2) - ((n - 1) - c + 1)

(* Toeplitz classes: block b in 0..W-1; for b = 0 only r <= c (the leading block is symmetric) *)
Classes(N, W) == {<<b, r, c>> \in (0..(W - 1)) \X (0..(N - 1)) \X (0..(N - 1)) : b > 0 \/ r <= c}
ClassOf(N, R, C) == <<(C \div N) - (R \div N), R % N, C % N>>            \* of an upper-triangle cell
ClassPositions(N, W, b, r, c) == [i \in 1..(W - b) |-> <<(i - 1) * N + r, (i - 1 + b) * N + c>>]
=============================================================================
