SPECIFICATION Spec
CONSTANTS
  Configs <- CfgLimits
  FixedCode = TRUE
PROPERTY RefinesBadCore
