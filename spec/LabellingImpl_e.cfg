SPECIFICATION Spec
CONSTANTS
  T = 3
  K = 2
  Vals = {0,1,2}
  Betas = {0,1,2}
  VectorBeta = FALSE
INVARIANT DPInvariant
INVARIANT Optimal
INVARIANT OracleAgrees
PROPERTY Refines
