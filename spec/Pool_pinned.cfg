SPECIFICATION FairSpec
CONSTANTS
  K = 3
  MaxP = 2
  Rounds = 1
  MaxFaults = 1
  FixedCode = FALSE
INVARIANT ResultBelongsToItsCluster
INVARIANT CompletedRoundsAreRight
INVARIANT FailureRaises
INVARIANT ErrorMeansNoReturn
INVARIANT AtMostNprocRunning
INVARIANT NoWorkerLeft
PROPERTY Terminates
