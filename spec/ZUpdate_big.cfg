SPECIFICATION Spec
CONSTANTS
  MaxN = 3
  MaxW = 4
  SVals <- SValsWide
  LamVals = {0,1,3}
  Rhos = {1,2,3}
  Symmetric = TRUE
  ScalarForm = FALSE
INVARIANT SubgradientOptimal
INVARIANT SignConsistent
INVARIANT ScalarEqualsConstantMatrix
