---------------------------- MODULE MC_TiccLoop ----------------------------
EXTENDS TiccLoop
CfgSmall  == {[T |-> 4, K |-> 2, limit |-> 3, m |-> 1, maxProcs |-> 2, maxFaults |-> 1]}
CfgLimits == {[T |-> 3, K |-> 2, limit |-> l, m |-> 1, maxProcs |-> 1, maxFaults |-> 0] : l \in 1..4}
CfgM2     == {[T |-> 5, K |-> 2, limit |-> 2, m |-> 2, maxProcs |-> 1, maxFaults |-> 1]}
CfgNoDonor == {[T |-> 4, K |-> 2, limit |-> 2, m |-> 3, maxProcs |-> 1, maxFaults |-> 0]}   \* nobody holds 2m: RepopFails
CfgK3     == {[T |-> 4, K |-> 3, limit |-> 2, m |-> 1, maxProcs |-> 2, maxFaults |-> 0]}
\* configurations whose behaviours are replayed into the real loop as label scripts (harness/drv_scripts.py)
CfgScriptA == {[T |-> 4, K |-> 2, limit |-> 4, m |-> 1, maxProcs |-> 1, maxFaults |-> 0]}
CfgScriptB == {[T |-> 5, K |-> 3, limit |-> 3, m |-> 1, maxProcs |-> 1, maxFaults |-> 0]}
CfgScriptC == {[T |-> 6, K |-> 3, limit |-> 3, m |-> 2, maxProcs |-> 1, maxFaults |-> 0]}
(* ---- TiccLoop implements the control skeleton LoopCore (pool steps, statistics, submission and all but the last
        gather stutter) ---- *)
CorePc == CASE pc = "call" -> "call"
            [] pc \in {"open", "top"} -> "top"
            [] pc \in {"stats", "submit", "gather"} -> "fit"
            [] pc = "relabel" -> "relabel"
            [] pc = "decide" -> "decide"
            [] pc \in {"closing", "metrics", "returned"} -> "done"
            [] OTHER -> "failed"
Core == INSTANCE LoopCore WITH ccfg <- [T |-> cfg.T, K |-> cfg.K, limit |-> cfg.limit], cpc <- CorePc, crnd <- round,
                               clab <- labels, cprev <- prev, cexit <- exit,
                               CoreConfigs <- {[T |-> c.T, K |-> c.K, limit |-> c.limit] : c \in Configs}
RefinesCore == Core!Spec
\* a deliberately wrong mapping (self-test): statistics mapped to "top", so the core never passes through "fit"
BadCorePc == IF pc = "stats" THEN "top" ELSE CorePc
BadCore == INSTANCE LoopCore WITH ccfg <- [T |-> cfg.T, K |-> cfg.K, limit |-> cfg.limit], cpc <- BadCorePc, crnd <- round,
                                  clab <- labels, cprev <- prev, cexit <- exit,
                                  CoreConfigs <- {[T |-> c.T, K |-> c.K, limit |-> c.limit] : c \in Configs}
RefinesBadCore == BadCore!Spec
=============================================================================
