SPECIFICATION Spec
CONSTANTS
  MaxSeries = 2
  MaxLen = 2
  K = 2
  Vals = {0,1,2}
  Beta = 1
  Shift = 0
INVARIANT Decomposes
INVARIANT OptimaRestrict
