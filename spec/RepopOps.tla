---------------------------- MODULE RepopOps ----------------------------
(* Pure operators stating property C08 (cluster repopulation).  Clusters are 0..K-1; `sz` is a
   function cluster -> size; `rank` is a sequence of ALL cluster ids in order of decreasing
   covariance spread; m >= 1 is the minimum cluster size.                                      *)
EXTENDS Integers, Sequences, FiniteSets, TLC

Under(sz, K)      == {k \in 0..(K - 1) : sz[k] < 2}
DonorSet(sz, K, m) == {k \in 0..(K - 1) : sz[k] >= 2 * m}
Cap(sz, m, k)     == (sz[k] \div m) - 1              \* refills k can pay for while keeping >= m

RECURSIVE CapSumAcc(_, _, _, _, _)
CapSumAcc(sz, K, m, k, acc) ==
    IF k >= K THEN acc
    ELSE CapSumAcc(sz, K, m, k + 1, acc + (IF sz[k] >= 2 * m THEN Cap(sz, m, k) ELSE 0))
Capacity(sz, K, m) == CapSumAcc(sz, K, m, 0, 0)

(* greedy by spread: walk `rank`, each donor pays for as many refills as it can *)
RECURSIVE GreedyAcc(_, _, _, _, _, _)
GreedyAcc(sz, m, rank, i, left, give) ==
    IF i > Len(rank) THEN give
    ELSE LET k == rank[i]
             g == IF sz[k] >= 2 * m
                  THEN (IF Cap(sz, m, k) <= left THEN Cap(sz, m, k) ELSE left)
                  ELSE 0
         IN  GreedyAcc(sz, m, rank, i + 1, left - g, [give EXCEPT ![k] = g])
Greedy(sz, K, m, rank) ==
    GreedyAcc(sz, m, rank, 1, Cardinality(Under(sz, K)), [k \in 0..(K - 1) |-> 0])

MustFail(sz, K, m) == Cardinality(Under(sz, K)) > Capacity(sz, K, m)

(* the size vector C08 demands on success *)
ExpectedSizes(sz, K, m, rank) ==
    LET g == Greedy(sz, K, m, rank)
    IN  [k \in 0..(K - 1) |-> IF sz[k] < 2 THEN sz[k] + m ELSE sz[k] - m * g[k]]

SizesOf(L, K) == [k \in 0..(K - 1) |-> Cardinality({p \in 1..Len(L) : L[p] = k})]
=============================================================================
