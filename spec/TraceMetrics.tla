---------------------------- MODULE TraceMetrics ----------------------------
(* Trace specification for the exact-family replays of the likelihood kernels (C05), the Bayesian
   information criterion (C16) and the Calinski-Harabasz index (C17).  Each record is one call of the
   real function on a hand-built model whose exact value TLC computes itself (MetricOps).
   kinds:
     "ll"  : one (point, cluster) entry of the likelihood table / per-point function:
             d = x - mu (integers), bands b1,b2 of L, exponents e, llL = round(ll * 2^20) as a limb
     "bic" : labels, paramCount[k], sumE[k], trL[k] (trace(Theta_k S_k) * 2^20, exact), lnTL, bicL
     "ch"  : integer data X, labels, K, chQ = round(CH * 2^10), also for per-sensor translations   *)
EXTENDS MetricOps, TLCExt, Json, IOUtils
CONSTANTS Enforced, KnownDeviations
ASSUME TLCSet(1, {}) /\ TLCSet(2, JsonDeserialize(IOEnv.TRACE_FILE))
Recs == TLCGet(2)
VARIABLES tid, st
vars == <<tid, st>>
R == Recs[tid]
Clause(pid, name, b) ==
    IF pid \notin Enforced THEN TRUE
    ELSE IF b THEN TRUE
    ELSE PrintT(<<"CLAUSE-FAIL", tid, pid, name>>) /\ FALSE
ClauseDev(pid, name, b, dev, explains) ==
    IF pid \notin Enforced THEN TRUE
    ELSE IF b THEN TRUE
    ELSE IF dev \in KnownDeviations /\ explains THEN PrintT(<<"KNOWN-FINDING", tid, 0, pid, dev>>)
    ELSE PrintT(<<"CLAUSE-FAIL", tid, pid, name>>) /\ FALSE

Init == tid \in 1..Len(Recs) /\ st = "called"

LL == /\ st = "called" /\ R.kind = "ll"
      /\ Clause("C05", "log_likelihood_is_finite_even_when_det_leaves_double_range", R.finite)
      \* (C03: a positive definite MRF has a finite log-determinant, HENCE every likelihood value is finite - for every
      \*  size and scale together, e.g. NW = 60 with variances 1e12, where det and sqrt(det) leave the double range)
      /\ Clause("C03", "likelihood_finite_for_every_positive_definite_mrf_whatever_its_determinant", R.finite)
      /\ Clause("C05", "log_likelihood_is_exact_gaussian_log_density",
                R.finite /\ LWithin(LScale(R.llL, 2), TwiceLLQ(R.d, R.b1, R.b2, R.e),
                                    Len(R.d) + SumInts([i \in 1..Len(R.e) |-> IF R.e[i] < 0 THEN -R.e[i] ELSE R.e[i]]) + 8))
      /\ st' = "returned" /\ UNCHANGED tid

RECURSIVE BicModAcc(_, _, _)
BicModAcc(r, k, acc) ==        \* sum_k (sumE_k ln2 - tr_k), scaled by 2^20
    IF k > Len(r.sumE) THEN acc
    ELSE BicModAcc(r, k + 1, LAdd(acc, LSub(LMulSigned(LInt(LN2Q), r.sumE[k]), r.trL[k])))
BIC == /\ st = "called" /\ R.kind = "bic"
       /\ Clause("C16", "bic_is_finite_when_mrfs_are_positive_definite", R.finite)
       /\ Clause("C16", "bic_is_P_lnT_minus_2_sum_logdet_minus_trace",
                 R.finite /\
                 LET P == ParamTotal(R.labels, R.paramCount)
                     want == LSub(LMulInt(R.lnTL, P), LScale(BicModAcc(R, 1, LZero), 2))
                 IN  LWithin(R.bicL, want, P + 2 * R.sumAbsE + 16))
       /\ st' = "returned" /\ UNCHANGED tid

CH == /\ st = "called" /\ R.kind = "ch"
      /\ LET q == CHRational(R.X, R.labels, R.K)
             okv(v) == q[2] # 0 /\ (v * q[2] - q[1] * 1024 <= q[2]) /\ (q[1] * 1024 - v * q[2] <= q[2])
         IN  /\ ClauseDev("C17", "index_equals_definition_with_per_column_centroid",
                          q[2] = 0 \/ okv(R.chQ), "F5_scalar_centre", R.scalarCentreExplains)
             /\ ClauseDev("C17", "index_unchanged_by_adding_a_constant_to_one_sensor",
                          q[2] = 0 \/ R.chQ = R.chQTranslated \/ (okv(R.chQ) /\ okv(R.chQTranslated)),
                          "F5_scalar_centre", R.scalarCentreExplains)
      /\ st' = "returned" /\ UNCHANGED tid

(* the covariance floor on integer matrices (entries exactly equal to +-eps included) *)
AbsI(v) == IF v < 0 THEN -v ELSE v
FLOOR == /\ st = "called" /\ R.kind = "floor"
         /\ Clause("C03", "floor_zeroes_exactly_the_entries_of_magnitude_below_eps_and_keeps_the_rest",
                   /\ Len(R.out) = Len(R.m)
                   /\ \A i \in 1..Len(R.m) : /\ Len(R.out[i]) = Len(R.m[i])
                                               /\ \A j \in 1..Len(R.m[i]) :
                                                    R.out[i][j] = IF AbsI(R.m[i][j]) < R.eps THEN 0 ELSE R.m[i][j])
         /\ Clause("C19", "floor_with_copy_leaves_its_argument_alone", R.copy => R.input_same)
         /\ st' = "returned" /\ UNCHANGED tid

(* a long run (clusters of thousands of windows), judged through the observation predicates of the harness *)
OkIncS(v) == v \in {"ok", "inc"}
BIG == /\ st = "called" /\ R.kind = "big"
       /\ Clause("C09", "long_run_completes", R.completed)
       /\ (R.completed =>
            /\ Clause("C04", "T_labels_exact_margins_interior_in_range_K_mrfs_and_echo", R.labelsOk)
            /\ Clause("C06", "one_likelihood_entry_per_labelled_point", R.nAll = R.n)
            /\ Clause("C06", "accounting_identities_hold_on_a_long_run", OkIncS(R.acctOk))
            /\ Clause("C05", "result_lists_the_log_density_of_every_labelled_point_and_aggregates_exactly_those",
                      OkIncS(R.o7result))
            /\ Clause("C16", "bic_matches_definition", OkIncS(R.bicOk))
            /\ ((R.converged /\ R.allNonEmpty /\ R.K >= 2) =>
                  ClauseDev("C17", "calinski_harabasz_matches_definition_with_per_column_centroid",
                            OkIncS(R.chOk), "F5_scalar_centre", R.chScalarCentre)))
       /\ st' = "returned" /\ UNCHANGED tid

(* generic SPD fields whose determinant is a subnormal double or just outside the double range (observation O7) *)
LLOBS == /\ st = "called" /\ R.kind = "llobs"
         /\ Clause("C05", "log_density_exact_when_the_determinant_is_subnormal_or_out_of_range", OkIncS(R.ok))
         /\ Clause("C03", "likelihood_finite_for_every_positive_definite_mrf_whatever_its_determinant", R.ok # "bad")
         /\ st' = "returned" /\ UNCHANGED tid

Next == LL \/ BIC \/ CH \/ FLOOR \/ BIG \/ LLOBS
Spec == Init /\ [][Next]_vars
Accept == (st = "returned") => TLCSet(1, TLCGet(1) \cup {tid})
Post == PrintT(<<"ACCEPTED", TLCGet(1)>>)
=============================================================================
