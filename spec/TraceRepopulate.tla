-------------------------- MODULE TraceRepopulate --------------------------
(* Trace specification for calls of repopulate_empty_clusters on real ModelState objects (C08;
   C13's partition clause rides along).  One record = one behaviour
       Init(before, rank, m) --Succeed | Fail--> outcome
   accepted iff it is a step of Repopulate (WHAT) lifted to points: which m members move is free.
   Record fields: K, m, rank[], before[], error, after[], members[][], errtype, names_shortage,
                  input_after[], input_same                                                       *)
EXTENDS RepopOps, TLCExt, Json, IOUtils
CONSTANT Enforced
ASSUME TLCSet(1, {}) /\ TLCSet(2, JsonDeserialize(IOEnv.TRACE_FILE))
Recs == TLCGet(2)

VARIABLES tid, st
vars == <<tid, st>>

Clause(pid, name, b) ==
    IF pid \notin Enforced THEN TRUE
    ELSE IF b THEN TRUE
    ELSE PrintT(<<"CLAUSE-FAIL", tid, pid, name>>) /\ FALSE

IsSortedListOf(s, S) == /\ \A i \in 1..(Len(s) - 1) : s[i] < s[i + 1]
                        /\ {s[i] : i \in 1..Len(s)} = S

Init == tid \in 1..Len(Recs) /\ st = "called"

Cls(r) == 0..(r.K - 1)

Succeed ==
    /\ st = "called" /\ ~Recs[tid].error
    /\ LET r  == Recs[tid]
           B  == r.before
           A  == r.after
           sb == SizesOf(B, r.K)
           sa == SizesOf(A, r.K)
           ex == ExpectedSizes(sb, r.K, r.m, r.rank)
       IN  /\ Clause("C08", "every_point_keeps_one_label_in_range",
                     Len(A) = Len(B) /\ \A p \in 1..Len(A) : A[p] \in Cls(r))
           /\ Clause("C08", "error_required_when_no_donor_capacity", ~MustFail(sb, r.K, r.m))
           /\ Clause("C08", "underpopulated_refilled_to_at_least_m",
                     \A k \in Cls(r) : sb[k] < 2 => sa[k] >= r.m)
           /\ Clause("C08", "donor_had_2m_and_keeps_m",
                     \A k \in Cls(r) : sa[k] < sb[k] => sb[k] >= 2 * r.m /\ sa[k] >= r.m)
           /\ Clause("C08", "moves_only_from_donor_to_underpopulated",
                     \A p \in 1..Len(A) : A[p] # B[p] => sb[A[p]] < 2 /\ sb[B[p]] >= 2 * r.m)
           /\ Clause("C08", "exactly_m_per_refill",
                     \A k \in Cls(r) : sb[k] < 2 => sa[k] = sb[k] + r.m)
           /\ Clause("C08", "bystanders_untouched",
                     \A k \in Cls(r) : (sb[k] >= 2 /\ sb[k] < 2 * r.m) => sa[k] = sb[k])
           /\ Clause("C08", "donors_in_order_of_decreasing_spread", sa = ex)
           /\ Clause("C08", "caller_state_not_modified", r.input_same /\ r.input_after = B)
           /\ Clause("C13", "partition",
                     /\ Len(r.members) = r.K
                     /\ \A k \in Cls(r) : IsSortedListOf(r.members[k + 1],
                                                           {q - 1 : q \in {p \in 1..Len(A) : A[p] = k}}))
    /\ st' = "returned" /\ UNCHANGED tid

Fail ==
    /\ st = "called" /\ Recs[tid].error
    /\ LET r  == Recs[tid]
           sb == SizesOf(r.before, r.K)
       IN  /\ Clause("C08", "error_only_when_no_donor_capacity", MustFail(sb, r.K, r.m))
           /\ Clause("C08", "clear_error_names_shortage",
                     r.errtype = "RuntimeError" /\ r.names_shortage)
           /\ Clause("C08", "caller_state_not_modified", r.input_same /\ r.input_after = r.before)
    /\ st' = "raised" /\ UNCHANGED tid

Next == Succeed \/ Fail
Spec == Init /\ [][Next]_vars
Accept == (st # "called") => TLCSet(1, TLCGet(1) \cup {tid})
Post == PrintT(<<"ACCEPTED", TLCGet(1)>>)
=============================================================================
