SPECIFICATION Spec
CONSTANTS
  K = 4
  M = 1
  MaxSize = 5
INVARIANT NoPopLast
INVARIANT DonorNeverStarved
INVARIANT PostOK
INVARIANT ErrOK
INVARIANT MatchesWhat
PROPERTY Refines
