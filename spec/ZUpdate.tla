------------------------------ MODULE ZUpdate ------------------------------
(* The consensus (Z) step of the block-Toeplitz ADMM solver for ONE Toeplitz class
   (admm_update_z / compute_lambda_sum / soft_threshold_prox in admm/solver.py), over exact
   integers and rationals.

   A class C = (b, r, c) of an (N*W)x(N*W) block-Toeplitz matrix has R = W - b positions in the upper
   triangle (IndexOps!ClassPositions).  The step must give all of them the value z that minimises
        sum over the positions of C in the FULL symmetric matrix of  lam_p |z| + (rho/2)(z - s_p)^2 .
   HOW (what the code computes, from the upper triangle only):
        Q = sum of lam over the R upper-triangle positions (matrix form) or lam * R (scalar form)
        a = rho * sum s_p ;  z = (a - Q)/(rho R) if a > Q ;  (a + Q)/(rho R) if a < -Q ;  0 otherwise
   WHAT: the exact subgradient optimality condition over the full matrix.  Every class has uniform
   multiplicity (1 on the main diagonal, 2 elsewhere), which cancels when lam is symmetric - TLC checks
   that it holds for every symmetric lam and exhibits a counterexample when lam may be asymmetric
   (Symmetric = FALSE), which is why C02 says "symmetric".                                         *)
EXTENDS IndexOps, TLC
CONSTANTS MaxN, MaxW, SVals, LamVals, Rhos, Symmetric, ScalarForm
VARIABLES N, W, cls, s, lamU, lamL, rho, z, done
vars == <<N, W, cls, s, lamU, lamL, rho, z, done>>

SValsSmall == {-2, -1, 0, 1, 2, 3}
SValsWide == {-3, -1, 0, 2, 5}
SValsAsym == {-2, 0, 1, 3}

R == W - cls[1]
Pos == ClassPositions(N, W, cls[1], cls[2], cls[3])
OnDiagonal == cls[1] = 0 /\ cls[2] = cls[3]

Init == /\ N \in 1..MaxN /\ W \in 1..MaxW
        /\ cls \in Classes(N, W)
        /\ s \in [1..(W - cls[1]) -> SVals]
        /\ lamU \in (IF ScalarForm THEN {[i \in 1..(W - cls[1]) |-> v] : v \in LamVals}
                                   ELSE [1..(W - cls[1]) -> LamVals])       \* lam at (row, col)
        /\ lamL \in (IF Symmetric THEN {lamU} ELSE [1..(W - cls[1]) -> LamVals])   \* lam at (col, row)
        /\ rho \in Rhos
        /\ z = <<0, 1>> /\ done = FALSE

RECURSIVE SumAcc(_, _, _)
SumAcc(f, i, acc) == IF i > Len(f) THEN acc ELSE SumAcc(f, i + 1, acc + f[i])
Sum(f) == SumAcc(f, 1, 0)

(* ---- HOW ---- *)
Q == IF ScalarForm THEN lamU[1] * R ELSE Sum(lamU)
A == rho * Sum(s)
ZStep == /\ ~done
         /\ z' = IF A > Q THEN <<A - Q, rho * R>>
                 ELSE IF A < -Q THEN <<A + Q, rho * R>>
                 ELSE <<0, 1>>
         /\ done' = TRUE
         /\ UNCHANGED <<N, W, cls, s, lamU, lamL, rho>>
Next == ZStep
Spec == Init /\ [][Next]_vars

(* ---- WHAT: z = num/den (den > 0) minimises  LamFull |z| + (rho/2) * sum_full (z - s_p)^2 ---- *)
Mult == IF OnDiagonal THEN 1 ELSE 2
LamFull == IF OnDiagonal THEN Sum(lamU) ELSE Sum(lamU) + Sum(lamL)
(* derivative of the smooth part at z, times den:  rho * Mult * (R*num - den*sum s) *)
Smooth(num, den) == rho * Mult * (R * num - den * Sum(s))
SubgradientOptimal ==
    done =>
      LET num == z[1]  den == z[2]
      IN  /\ den > 0
          /\ IF num > 0 THEN Smooth(num, den) + den * LamFull = 0
             ELSE IF num < 0 THEN Smooth(num, den) - den * LamFull = 0
             ELSE /\ Smooth(0, 1) <= LamFull /\ -Smooth(0, 1) <= LamFull
SignConsistent == done => (z[1] > 0 => A > 0) /\ (z[1] < 0 => A < 0)
ScalarEqualsConstantMatrix == ScalarForm => lamU[1] * R = Sum(lamU)
=============================================================================
