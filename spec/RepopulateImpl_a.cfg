SPECIFICATION Spec
CONSTANTS
  K = 4
  M = 2
  MaxSize = 8
INVARIANT NoPopLast
INVARIANT DonorNeverStarved
INVARIANT PostOK
INVARIANT ErrOK
INVARIANT MatchesWhat
PROPERTY Refines
