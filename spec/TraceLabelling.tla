-------------------------- MODULE TraceLabelling --------------------------
(* Trace specification for direct calls of the labelling kernel (C01, and C07c/C15/C18/C19 reuse
   the same records).  Each record of the JSON file is one behaviour
        Init (cost table, beta as handed to the kernel)  --Relabel-->  (labels, reported)
   and is accepted iff the step is a step of the WHAT action Labelling!Relabel, evaluated
   clause by clause so that a rejection names the clause.
   Record fields (all integers; the harness scaled dyadic floats by 2^s):
     T, K, cost[T][K], beta[T-1 or more], labels[T], reported, slack, bf, exact            *)
EXTENDS LabelOps, TLC, TLCExt, Json, IOUtils
CONSTANT Enforced
ASSUME TLCSet(1, {}) /\ TLCSet(2, JsonDeserialize(IOEnv.TRACE_FILE))
Recs == TLCGet(2)

VARIABLES tid, st, labels, reported
vars == <<tid, st, labels, reported>>

Clause(pid, name, b) ==
    IF pid \notin Enforced THEN TRUE
    ELSE IF b THEN TRUE
    ELSE PrintT(<<"CLAUSE-FAIL", tid, pid, name>>) /\ FALSE

Init == /\ tid \in 1..Len(Recs)
        /\ st = "called" /\ labels = <<>> /\ reported = 0

Relabel ==
    /\ st = "called"
    /\ LET r  == Recs[tid]
           bf == MinCostBF(r.cost, r.beta, r.T, r.K)
           dp == MinCostDP(r.cost, r.beta, r.T, r.K)
           m  == IF r.bf THEN bf ELSE dp
           tc == TotalCost(r.cost, r.beta, r.labels)
       IN  /\ Clause("C01", "labels_in_range", InRange(r.labels, r.T, r.K))
           /\ Clause("C01", "reported_is_cost_of_returned",
                     r.exact /\ Abs(r.reported - tc) <= r.slack)
           /\ Clause("C01", "optimal", tc <= m + r.slack)
           /\ Clause("C01", "not_below_minimum", tc >= m)       \* sanity of the oracle itself
           /\ (r.bf => Clause("C01", "oracle_agree", bf = dp))
           /\ Clause("C19", "cost_table_and_switching_cost_unchanged", r.args_same)
           /\ labels' = r.labels /\ reported' = r.reported
    /\ st' = "returned" /\ UNCHANGED tid

Next == Relabel
Spec == Init /\ [][Next]_vars

Accept == (st = "returned") => TLCSet(1, TLCGet(1) \cup {tid})
Post == PrintT(<<"ACCEPTED", TLCGet(1)>>)
=============================================================================
