SPECIFICATION Spec
CONSTANTS
  K = 3
  M = 1
  MaxSize = 5
INVARIANT NoPopLast
INVARIANT DonorNeverStarved
INVARIANT PostOK
INVARIANT ErrOK
INVARIANT MatchesWhat
PROPERTY Refines
