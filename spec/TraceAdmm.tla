----------------------------- MODULE TraceAdmm -----------------------------
(* Trace specification for calls of the public optimiser entry point admm_optimize_theta
   (C02; C03 and C19 clauses ride along).  Events come from the guarded hooks in
   run_admm_optimization: enter, step (one per iteration), check, rho, exit.
   The control flow must be a behaviour of Admm; the numeric content of sampled iterations is
   covered by the observations O4 (X-update fixed-point equation), O5 (U update, bitwise) and O6
   (Z update = the ZUpdate formula), and the returned matrix by O3 (KKT certificate of optimality
   for the block-Toeplitz graphical lasso), O2 (positive definite) - see DESIGN 4.3 / Appendix C. *)
EXTENDS Admm, TLCExt, Json, IOUtils
CONSTANT Enforced
ASSUME TLCSet(1, {}) /\ TLCSet(2, JsonDeserialize(IOEnv.TRACE_FILE))
Traces == TLCGet(2)
VARIABLES tid, l, lastX, maxIt, hasCb
allvars == <<vars, tid, l, lastX, maxIt, hasCb>>
Ev == Traces[tid].events[l]
NEv == Len(Traces[tid].events)

Clause(pid, name, b) ==
    IF pid \notin Enforced THEN TRUE
    ELSE IF b THEN TRUE
    ELSE PrintT(<<"CLAUSE-FAIL", tid, l, pid, name>>) /\ FALSE
OkInc(v) == v \in {"ok", "inc", "na"}

TraceInit ==
    /\ tid \in 1..Len(Traces) /\ l = 1
    /\ maxIt = Traces[tid].maxIt /\ hasCb = Traces[tid].hasCb
    /\ it = 0 /\ pc = IF Traces[tid].maxIt = 0 THEN "ret" ELSE "x"
    /\ x = <<"x0">> /\ z = <<"z0">> /\ zold = None /\ u = <<"u0">>
    /\ rho = Traces[tid].rho /\ callerRho = Traces[tid].rho
    /\ conv = FALSE /\ lastCheck = None /\ ret = None /\ iters = 0
    /\ lastX = "x0"
IsEvent(e) == l <= NEv /\ Ev.ev = e /\ l' = l + 1 /\ UNCHANGED <<tid, maxIt, hasCb>>

TraceEnter == IsEvent("enter") /\ UNCHANGED vars /\ UNCHANGED lastX

TraceStep ==
    /\ IsEvent("step")
    /\ \/ pc = "x" /\ it = Ev.it
       \/ /\ pc = "next" /\ Ev.it = it + 1                            \* silent NextIter
          /\ Clause("C02", "never_exceeds_iteration_budget", it + 1 < maxIt)
    /\ Clause("C02", "x_update_solves_its_fixed_point_equation", OkInc(Ev.o4))
    /\ Clause("C02", "u_update_is_u_plus_x_minus_z", OkInc(Ev.o5))
    /\ Clause("C02", "z_update_is_the_consensus_step", OkInc(Ev.o6))
    /\ IterAt(Ev.it)
    /\ lastX' = Ev.xDig

TraceCheck ==
    /\ IsEvent("check")
    /\ Clause("C02", "stopping_rule_never_evaluated_at_iteration_zero", Ev.it > 0 /\ Ev.it = it)
    /\ Clause("C02", "converged_iff_both_residuals_within_tolerance", Ev.converged = (Ev.rpOk /\ Ev.rdOk))
    /\ pc = "check"
    /\ lastCheck' = [it |-> it, rp |-> Ev.rpOk, rd |-> Ev.rdOk, x |-> x, z |-> z, zold |-> zold, u |-> u, rho |-> rho]
    /\ conv' = (Ev.rpOk /\ Ev.rdOk)
    /\ pc' = IF Ev.rpOk /\ Ev.rdOk THEN "ret" ELSE IF hasCb THEN "rho" ELSE "next"
    /\ UNCHANGED <<it, x, z, zold, u, rho, callerRho, ret, iters, lastX>>

TraceRho ==
    /\ IsEvent("rho")
    /\ Clause("C02", "callback_consulted_only_after_a_failed_check", pc = "rho" /\ hasCb)
    /\ Clause("C02", "u_rescaled_by_old_rho_over_new_rho", OkInc(Ev.scaleOk))
    /\ RhoUpdate(Ev.newRho)
    /\ UNCHANGED lastX

TraceExit ==
    /\ IsEvent("exit")
    /\ \/ pc = "ret"
       \/ pc = "next" /\ it + 1 >= maxIt                              \* budget exhausted: silent NextIter
    /\ Clause("C02", "returns_the_x_of_the_last_iteration", Ev.xDig = lastX)
    /\ Clause("C02", "iterations_within_budget", Ev.iterations = iters /\ iters <= maxIt)
    /\ Clause("C02", "reports_convergence_iff_the_stopping_rule_fired", Ev.converged = conv)
    /\ Clause("C02", "early_stop_only_when_converged", iters < maxIt => conv)
    /\ Clause("C02", "returned_theta_is_block_toeplitz_within_tolerance", conv => OkInc(Ev.toep))
    /\ Clause("C02", "returned_theta_satisfies_kkt_of_block_toeplitz_graphical_lasso", conv => OkInc(Ev.o3))
    /\ Clause("C02", "always_converges_within_budget_in_the_unconditional_regime", Ev.uncond => conv)
    /\ Clause("C03", "theta_finite_symmetric_positive_definite", Ev.o2 = "ok")
    /\ Clause("C19", "covariance_and_lambda_unchanged", Ev.args_same)
    /\ Clause("C19", "callers_rho_object_unchanged", Ev.rho_same)
    /\ ret' = x /\ pc' = "done"
    /\ UNCHANGED <<it, x, z, zold, u, rho, callerRho, conv, lastCheck, iters, lastX>>

TraceNext == TraceEnter \/ TraceStep \/ TraceCheck \/ TraceRho \/ TraceExit
InvClauses ==
    /\ Clause("C02", "inv_returns_last_x", ReturnsLastX)
    /\ Clause("C02", "inv_never_checks_at_iteration_zero", NeverChecksAtIterationZero)
    /\ Clause("C02", "inv_converged_iff_both_residuals", ConvergedIffBothResiduals)
TraceSpec == TraceInit /\ [][TraceNext /\ InvClauses']_allvars
Accept == (l = NEv + 1) => TLCSet(1, TLCGet(1) \cup {tid})
Post == PrintT(<<"ACCEPTED", TLCGet(1)>>)
=============================================================================
