SPECIFICATION Spec
CONSTANTS
  NPoints = 3
  NClusters = 1
  MaxThreads = 2
  SharedAcc = TRUE
INVARIANT TableIndependentOfSchedule
INVARIANT NoCellWrittenTwice
INVARIANT EveryCellHasOneOwner
INVARIANT AccumulatorIndependentOfSchedule
