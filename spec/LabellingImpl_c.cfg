SPECIFICATION Spec
CONSTANTS
  T = 4
  K = 2
  Vals = {0,1,2}
  Betas = {0,1,2}
  VectorBeta = TRUE
INVARIANT DPInvariant
INVARIANT Optimal
INVARIANT OracleAgrees
PROPERTY Refines
