SPECIFICATION Spec
CONSTANTS
  T = 1
  K = 2
  Vals = {0,1,2}
  Betas = {0}
  VectorBeta = FALSE
INVARIANT DPInvariant
INVARIANT Optimal
INVARIANT OracleAgrees
PROPERTY Refines
