-------------------------- MODULE TraceStacking --------------------------
(* Trace specification for the data-preparation helpers (C10; C04 margins; C07 mask and
   no-mixing).  A trace is the pipeline the front ends run on one tuple of series:
      stack(s) for each series, multi, template, split, pad(s) for each series.
   Output cells are TOKENS computed by the harness from bit patterns (P-tok): the index of the
   unique input cell holding the same 64 bits, or -1.                                        *)
EXTENDS StackOps, TLC, TLCExt, Json, IOUtils
CONSTANT Enforced
ASSUME TLCSet(1, {}) /\ TLCSet(2, JsonDeserialize(IOEnv.TRACE_FILE))
Traces == TLCGet(2)

VARIABLES tid, l
vars == <<tid, l>>
Ev == Traces[tid].events[l]
Hdr == Traces[tid]              \* Ts[], W, N

Clause(pid, name, b) ==
    IF pid \notin Enforced THEN TRUE
    ELSE IF b THEN TRUE
    ELSE PrintT(<<"CLAUSE-FAIL", tid, l, pid, name>>) /\ FALSE

Init == tid \in 1..Len(Traces) /\ l = 1
IsEvent(k) == l <= Len(Traces[tid].events) /\ Ev.kind = k /\ l' = l + 1 /\ UNCHANGED tid

ShapeOK(mat, rows, cols) == Len(mat) = rows /\ \A i \in 1..rows : Len(mat[i]) = cols

TraceStack ==
    /\ IsEvent("stack")
    /\ LET T == Hdr.Ts[Ev.s]
           off == Hdr.N * Prefix(Hdr.Ts, Ev.s - 1)
       IN  /\ Clause("C10", "stack_shape", ShapeOK(Ev.tok, StackRows(T, Hdr.W), Hdr.N * Hdr.W))
           /\ Clause("C10", "stack_cell_is_row_i_plus_j_bit_for_bit",
                     \A i \in 1..StackRows(T, Hdr.W) : \A q \in 1..(Hdr.N * Hdr.W) :
                         Ev.tok[i][q] = off + StackCell(Hdr.N, i - 1, q - 1))
           /\ Clause("C19", "input_unchanged", Ev.input_same)

TraceMulti ==
    /\ IsEvent("multi")
    /\ LET rows == SumSeq(StackedLens(Hdr.Ts, Hdr.W))
       IN  /\ Clause("C10", "joint_shape", ShapeOK(Ev.tok, rows, Hdr.N * Hdr.W))
           /\ Clause("C10", "joint_is_concatenation_in_input_order",
                     \A g \in 1..rows : \A q \in 1..(Hdr.N * Hdr.W) :
                         Ev.tok[g][q] = JointCell(Hdr.Ts, Hdr.W, Hdr.N, g, q))
           /\ Clause("C07", "no_window_mixes_series",
                     \A g \in 1..rows : \A q \in 1..(Hdr.N * Hdr.W) :
                         /\ Ev.tok[g][q] >= 0
                         /\ SeriesOfToken(Hdr.Ts, Hdr.N, Ev.tok[g][q])
                                = SeriesOfRow(StackedLens(Hdr.Ts, Hdr.W), g, 1)[1])
           /\ Clause("C19", "input_unchanged", Ev.input_same)

TraceTemplate ==
    /\ IsEvent("template")
    /\ LET lens == StackedLens(Hdr.Ts, Hdr.W)
       IN  /\ Clause("C07", "mask_length", Len(Ev.out) = SumSeq(lens))
           /\ Clause("C07", "mask_zeros_exactly_on_boundary_pairs",
                     \A i \in 1..(SumSeq(lens) - 1) :
                         /\ Ev.out[i] \in {0, 1}
                         /\ (Ev.out[i] = 0) <=> (i \in BoundaryPairs(lens)))

TraceSplit ==
    /\ IsEvent("split")
    /\ LET lens == StackedLens(Hdr.Ts, Hdr.W)
       IN  /\ Clause("C10", "split_by_stacked_lengths", Ev.out = SplitOf(Ev.joint, lens))

TracePad ==
    /\ IsEvent("pad")
    /\ LET T == Hdr.Ts[Ev.s]
       IN  /\ Clause("C10", "pad_restores_original_length", Len(Ev.out) = T)
           /\ Clause("C04", "margin_front_floor_back_rest",
                     Ev.out = PadOf(Ev.part, Hdr.W))
           /\ Clause("C10", "pad_keeps_labels_in_order", Ev.out = PadOf(Ev.part, Hdr.W))

Next == TraceStack \/ TraceMulti \/ TraceTemplate \/ TraceSplit \/ TracePad
Spec == Init /\ [][Next]_vars
Accept == (l = Len(Traces[tid].events) + 1) => TLCSet(1, TLCGet(1) \cup {tid})
Post == PrintT(<<"ACCEPTED", TLCGet(1)>>)
=============================================================================
