SPECIFICATION Spec
CONSTANTS
  NPoints = 5
  NClusters = 2
  MaxThreads = 2
  SharedAcc = FALSE
INVARIANT TableIndependentOfSchedule
INVARIANT NoCellWrittenTwice
INVARIANT EveryCellHasOneOwner
INVARIANT AccumulatorIndependentOfSchedule
