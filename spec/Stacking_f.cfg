SPECIFICATION Spec
CONSTANTS
  W = 2
  N = 1
  MaxSeries = 4
  MaxExtra = 2
  KK = 2
INVARIANT NoRowMixesSeries
INVARIANT RowsAreWindows
INVARIANT PadSplitRestores
INVARIANT MaskZerosExactlyAtBoundaries
