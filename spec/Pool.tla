------------------------------- MODULE Pool -------------------------------
(* The way the library uses multiprocessing.Pool (main_loop._init_task_pool,
   graphical_lasso.optimize_markov_random_fields / _retrieve_optimization_results):
   the parent submits one task per cluster with apply_async, workers pick tasks in any order and
   finish in any order, the parent collects AsyncResult.get() strictly in cluster order; a failed
   task re-raises its error in the parent at its get().  Rounds repeat on the same pool.

   Checked: whatever the number of workers and the completion order, result k is the function of
   the arguments submitted for k (C14); a failed task makes the parent raise that error and return
   nothing; on every exit path no worker is left (C20; FixedCode = FALSE reproduces the leak on the
   error path of the code as pinned); the parent never blocks forever (liveness).               *)
EXTENDS Integers, Sequences, FiniteSets, TLC
CONSTANTS K, MaxP, Rounds, MaxFaults, FixedCode
VARIABLES nproc, alive, pc, round, args, task, runner, produced, got, next, err, faults, done
vars == <<nproc, alive, pc, round, args, task, runner, produced, got, next, err, faults, done>>
Cls == 0..(K - 1)
F(a) == <<"theta", a>>                   \* the optimiser is a function of its arguments

Init == /\ nproc \in 1..MaxP /\ alive = {} /\ pc = "open" /\ round = 0
        /\ args = [k \in Cls |-> <<>>] /\ task = [k \in Cls |-> "none"]
        /\ runner = [k \in Cls |-> 0] /\ produced = [k \in Cls |-> <<>>]
        /\ got = [k \in Cls |-> <<>>] /\ next = 0 /\ err = "" /\ faults = 0 /\ done = <<>>

Open == /\ pc = "open" /\ alive' = 1..nproc /\ pc' = "submit"
        /\ UNCHANGED <<nproc, round, args, task, runner, produced, got, next, err, faults, done>>
SubmitAll ==
    /\ pc = "submit"
    /\ args' = [k \in Cls |-> <<"cov", round, k>>]
    /\ task' = [k \in Cls |-> "queued"] /\ runner' = [k \in Cls |-> 0]
    /\ produced' = [k \in Cls |-> <<>>] /\ got' = [k \in Cls |-> <<>>] /\ next' = 0
    /\ pc' = "gather"
    /\ UNCHANGED <<nproc, alive, round, err, faults, done>>
Idle(w) == w \in alive /\ \A k \in Cls : ~(task[k] = "running" /\ runner[k] = w)
Start(w, k) ==
    /\ Idle(w) /\ task[k] = "queued"
    /\ task' = [task EXCEPT ![k] = "running"] /\ runner' = [runner EXCEPT ![k] = w]
    /\ UNCHANGED <<nproc, alive, pc, round, args, produced, got, next, err, faults, done>>
Finish(k) ==
    /\ task[k] = "running" /\ runner[k] \in alive
    /\ task' = [task EXCEPT ![k] = "done"] /\ produced' = [produced EXCEPT ![k] = F(args[k])]
    /\ UNCHANGED <<nproc, alive, pc, round, args, runner, got, next, err, faults, done>>
FailTask(k) ==
    /\ task[k] = "running" /\ runner[k] \in alive /\ faults < MaxFaults
    /\ task' = [task EXCEPT ![k] = "failed"] /\ faults' = faults + 1
    /\ UNCHANGED <<nproc, alive, pc, round, args, runner, produced, got, next, err, done>>
Get == /\ pc = "gather" /\ next < K /\ task[next] = "done"
       /\ got' = [got EXCEPT ![next] = produced[next]]
       /\ next' = next + 1
       /\ pc' = IF next + 1 = K THEN "round_done" ELSE "gather"
       /\ UNCHANGED <<nproc, alive, round, args, task, runner, produced, err, faults, done>>
GetFails == /\ pc = "gather" /\ next < K /\ task[next] = "failed"
            /\ err' = "TaskError" /\ pc' = "failing"
            /\ UNCHANGED <<nproc, alive, round, args, task, runner, produced, got, next, faults, done>>
NextRound == /\ pc = "round_done"
             /\ done' = Append(done, got)
             /\ IF round + 1 < Rounds THEN round' = round + 1 /\ pc' = "submit"
                                      ELSE round' = round /\ pc' = "closing"
             /\ UNCHANGED <<nproc, alive, args, task, runner, produced, got, next, err, faults>>
CloseJoin == /\ pc = "closing" /\ alive' = {} /\ pc' = "returned"
             /\ UNCHANGED <<nproc, round, args, task, runner, produced, got, next, err, faults, done>>
Raise == /\ pc = "failing"
         /\ alive' = IF FixedCode THEN {} ELSE alive
         /\ pc' = "raised"
         /\ UNCHANGED <<nproc, round, args, task, runner, produced, got, next, err, faults, done>>
Next == Open \/ SubmitAll \/ Get \/ GetFails \/ NextRound \/ CloseJoin \/ Raise
        \/ (\E w \in 1..MaxP, k \in Cls : Start(w, k))
        \/ (\E j \in Cls : Finish(j) \/ FailTask(j))
Spec == Init /\ [][Next]_vars
FairSpec == Spec /\ WF_vars(Next)

ResultBelongsToItsCluster == \A k \in Cls : got[k] # <<>> => got[k] = F(args[k])
CompletedRoundsAreRight == \A r \in 1..Len(done) : \A k \in Cls : done[r][k] = F(<<"cov", r - 1, k>>)
FailureRaises == (\E k \in Cls : task[k] = "failed" /\ k < next) => FALSE
ErrorMeansNoReturn == err # "" => pc \in {"failing", "raised"}
NoWorkerLeft == pc \in {"returned", "raised"} => alive = {}
AtMostNprocRunning == Cardinality({k \in Cls : task[k] = "running"}) <= nproc
Terminates == <>(pc \in {"returned", "raised"})
=============================================================================
