"""Batch trace validation: many records/traces per TLC process, sharded over processes.

A trace module follows one convention: the JSON file is an array; behaviour `tid` consumes
record/trace `tid`; a CONSTRAINT named Accept adds tid to register 1 when the behaviour has
been fully consumed; POSTCONDITION Post prints <<"ACCEPTED", {tids}>>; failing clauses print
<<"CLAUSE-FAIL", tid, ..., property, clause>>.
"""
import concurrent.futures as cf
import json
import os

from . import common, tlc


def _cfg(path, enforced, extra_constants=None, constraint="Accept", post="Post", invariants=(), spec="Spec"):
    enf = "{" + ", ".join(f'"{e}"' for e in sorted(enforced)) + "}"
    lines = [f"SPECIFICATION {spec}", "CONSTANTS", f"  Enforced = {enf}"]
    for k, v in (extra_constants or {}).items():
        lines.append(f"  {k} = {v}")
    lines += [f"CONSTRAINT {constraint}", f"POSTCONDITION {post}"]
    for inv in invariants:
        lines.append(f"INVARIANT {inv}")
    with open(path, "w") as fh:
        fh.write("\n".join(lines) + "\n")


def _one(module, recs, enforced, extra_constants, idx, timeout, invariants, spec):
    d = common.scratch("trace-")
    try:
        tf = os.path.join(d, "trace.json")
        with open(tf, "w") as fh:
            json.dump(recs, fh)
        cfg = os.path.join(d, "trace.cfg")
        _cfg(cfg, enforced, extra_constants, invariants=invariants, spec=spec)
        res = tlc.run(module, cfg, env={"TRACE_FILE": tf}, workers=1, timeout=timeout,
                      label=f"{module}#shard{idx}", heap="3g")
        return res
    finally:
        common.rm(d)


def validate(module, recs, enforced, *, extra_constants=None, shards=None, timeout=3600,
             invariants=(), spec="Spec"):
    """Returns (accepted_idx:set, failures:{idx:[(pid,clause,raw)]}, tlc_results).
    KNOWN-FINDING lines are collected in validate.known: {idx: {(pid, deviation)}}."""
    validate.known = {}
    n = len(recs)
    if n == 0:
        return set(), {}, []
    shards = max(1, min(shards or common.NCPU, n))
    parts = [list(range(i, n, shards)) for i in range(shards)]
    accepted, failures, results = set(), {}, []
    with cf.ThreadPoolExecutor(max_workers=shards) as ex:
        futs = {ex.submit(_one, module, [recs[i] for i in part], enforced, extra_constants, si,
                          timeout, invariants, spec): part
                for si, part in enumerate(parts)}
        for fut in cf.as_completed(futs):
            part = futs[fut]
            res = fut.result()
            results.append(res)
            acc_lines = res.lines_with("ACCEPTED")
            if not acc_lines:
                raise common.MachineryError(
                    f"TLC produced no ACCEPTED line for {res.label}:\n{res.out[-4000:]}")
            acc = tlc.parse_tuple(acc_lines[-1])[1]
            for t in acc:
                accepted.add(part[t - 1])
            for line in res.lines_with("CLAUSE-FAIL"):
                tup = tlc.parse_tuple(line)
                gi = part[tup[1] - 1]
                failures.setdefault(gi, []).append((tup[-2], tup[-1], line))
            for line in res.lines_with("KNOWN-FINDING"):
                tup = tlc.parse_tuple(line)
                validate.known.setdefault(part[tup[1] - 1], set()).add((tup[-2], tup[-1]))
            if res.violated:
                raise common.MachineryError(f"unexpected invariant violation in {res.label}: "
                                            f"{res.violated}\n{res.trace[:3000]}")
    for i in range(n):
        if i not in accepted and i not in failures:
            failures[i] = [("?", "no_enabled_step", "")]
    return accepted, failures, results
