"""Driver for C13 (A): random sequences of state operations on real ModelState objects; after every
operation the projection of every live handle is logged for TraceModelHeap."""
import random

import numpy as np

from . import proj


class _FakeTask:
    def __init__(self, v):
        self.v = v

    def get(self, timeout=None):
        return self.v

    # the rest of multiprocessing.pool.AsyncResult's interface: the task ran synchronously, so it is always finished
    def ready(self):
        return True

    def successful(self):
        return True

    def wait(self, timeout=None):
        return None


class FakePool:
    """Looks like the pool the optimise phase needs (apply_async only), runs in-process."""
    def apply_async(self, fn, args=(), kwargs=None):
        return _FakeTask(fn(*args, **(kwargs or {})))


def _unset(a):
    """Not fitted yet: None, or what np.copy(None) makes of it in a deep copy (a 0-d object array)."""
    return a is None or (isinstance(a, np.ndarray) and a.dtype == object)


def _mutables(model):
    """ids of every mutable object reachable from a model state that C13's deep copy must not share."""
    ids = set()
    if model._point_labels is not None:
        ids.add(id(model._point_labels))
    for c in model.clusters:
        ids.add(id(c))
        ids.add(id(c._member_points))
        for a in (c.stacked_data_mean, c.empirical_covariance, c.train_inverse, c.computed_covariance,
                  c.inverse_covariance):
            if isinstance(a, np.ndarray):
                ids.add(id(a))
    ids.add(id(model.clusters))
    return ids


def hproj(model):
    return {"labels": [int(x) for x in model.point_labels],
            "members": [[int(p) for p in c.member_points] for c in model.clusters],
            "stat": [proj.dig(c.empirical_covariance) + proj.dig(c.stacked_data_mean) for c in model.clusters],
            "mrf": [proj.dig(c.train_inverse) + proj.dig(c.computed_covariance) for c in model.clusters]}


def sequence(job):
    from harness import common
    common.use_repo()
    from fast_ticc.containers import arguments, model_state
    from fast_ticc import cluster_maintenance, graphical_lasso, cluster_label_assignment
    NP, K, nops, raw, pyseed = job
    rng = random.Random(pyseed)
    nrng = np.random.default_rng(pyseed)
    random.seed(pyseed)
    args = arguments.UserArguments(sparsity_weight=0.1, iteration_limit=3, label_switching_cost=0.5,
                                   min_cluster_size=1, min_meaningful_covariance=0, num_clusters=K,
                                   num_processors=1, window_size=1, biased_covariance=True)
    data = nrng.normal(size=(NP, 2)) * 2 + nrng.integers(0, 4, size=(NP, 1))
    m0 = model_state.ModelState.empty_model(args, data)
    L0 = [rng.randrange(K) for _ in range(NP)]
    m0.point_labels = list(L0)
    uniq = [100.0]

    def fresh_spd():
        uniq[0] += 1.0
        return np.eye(2) * (1.0 + uniq[0] / 1000.0)
    # two kinds of initial state: fully fitted (real arrays, pairwise distinct), or FRESH as the main loop creates it -
    # labels assigned, nothing fitted yet (every array None), so that the early life of a state (labels only; statistics
    # but no MRF yet) is copied and fitted too
    fresh = rng.random() < 0.4
    if not fresh:
        for c in m0.clusters:
            c.empirical_covariance = fresh_spd()
            c.stacked_data_mean = np.zeros(2) + uniq[0]
            c.train_inverse = fresh_spd()
            c.computed_covariance = fresh_spd()
        if rng.random() < 0.3:
            # a field that is NOT positive definite (a covariance floor can leave one behind): the relabel phase must
            # score against it without touching it
            uniq[0] += 1.0
            m0.clusters[rng.randrange(K)].train_inverse = np.diag([1.0 + uniq[0] / 1000.0, -0.3])
    handles = [m0]
    clean = True                               # only phases / deep copies so far (plus assignment on fresh states)
    events = []
    pool = FakePool()

    def log(ev):
        ev["proj"] = [hproj(h) for h in handles]
        ev["clean"] = clean
        events.append(ev)
    ops = ["phase_relabel", "phase_stats", "phase_opt", "phase_repop", "deep_copy"]
    if raw:
        ops += ["set_labels", "shallow_copy", "set_labels", "mutate", "mutate"]
    for _ in range(nops):
        op = rng.choice(ops)
        hi = rng.randrange(len(handles))
        h = handles[hi]
        sizes = [len(c.member_points) for c in h.clusters]
        no_stats = any(_unset(c.empirical_covariance) for c in h.clusters)
        no_mrf = any(_unset(c.train_inverse) or _unset(c.computed_covariance) for c in h.clusters)
        if (no_stats and op not in ("phase_stats", "deep_copy", "set_labels", "shallow_copy")) or \
                (no_mrf and op in ("phase_relabel", "phase_repop")) or \
                (op == "mutate" and (no_stats or no_mrf)):
            op = rng.choice(["phase_stats", "deep_copy"] + (["phase_opt"] if not no_stats else []))
        try:
            if op == "set_labels":
                u = rng.random()
                if u < 0.6:
                    L = [rng.randrange(K) for _ in range(NP)]
                elif u < 0.8:
                    L = list(h.point_labels)                      # the same labelling again
                else:
                    # a labelling that keeps every cluster's SIZE (and usually its end points) but changes
                    # interiors: swap the labels of two interior points
                    L = [int(x) for x in h.point_labels]
                    cand = [(i, j) for i in range(1, NP - 1) for j in range(i + 1, NP - 1) if L[i] != L[j]]
                    if cand:
                        i, j = rng.choice(cand)
                        L[i], L[j] = L[j], L[i]
                h.point_labels = list(L)
                clean = False if len(handles) > 1 else clean
                log({"op": op, "h": hi + 1, "L": L})
            elif op == "shallow_copy":
                handles.append(h.shallow_copy())
                clean = False
                log({"op": op, "h": hi + 1})
            elif op == "deep_copy":
                n = h.deep_copy()
                shared = len(_mutables(h) & _mutables(n))
                handles.append(n)
                log({"op": op, "h": hi + 1, "shared": shared})
            elif op == "phase_stats":
                if min(sizes) == 0 or not clean and any(len(c.member_points) == 0 for c in h.clusters):
                    continue
                handles.append(cluster_maintenance.update_all_cluster_statistics(h, data))
                log({"op": op, "h": hi + 1})
            elif op == "phase_opt":
                if any(_unset(c.empirical_covariance) for c in h.clusters):
                    continue
                handles.append(graphical_lasso.optimize_markov_random_fields(h, data, pool))
                log({"op": op, "h": hi + 1})
            elif op == "phase_relabel":
                handles.append(cluster_label_assignment.predict_cluster_labels(h, data))
                log({"op": op, "h": hi + 1, "L": [int(x) for x in handles[-1].point_labels]})
            elif op == "phase_repop":
                try:
                    out = cluster_maintenance.repopulate_empty_clusters(h)
                except RuntimeError:
                    log({"op": "phase_noop", "h": hi + 1, "why": "no donor"})
                    continue
                if out is h:
                    log({"op": "phase_noop", "h": hi + 1, "why": "nothing to repopulate"})
                else:
                    handles.append(out)
                    log({"op": op, "h": hi + 1, "L": [int(x) for x in out.point_labels]})
            elif op == "mutate":
                clean = False                       # direct in-place writes bypass the setters
                slot = rng.choice(["lab", "mem", "stat", "mrf"])
                k = rng.randrange(K)
                uniq[0] += 1.0
                if slot == "lab":
                    v = [rng.randrange(K) for _ in range(NP)]
                    h._point_labels[:] = v
                    log({"op": op, "h": hi + 1, "slot": slot, "k": k + 1, "v": v, "vdig": ""})
                elif slot == "mem":
                    v = sorted(rng.sample(range(NP), rng.randrange(NP + 1)))
                    h.clusters[k]._member_points[:] = v
                    log({"op": op, "h": hi + 1, "slot": slot, "k": k + 1, "v": v, "vdig": ""})
                elif slot == "stat":
                    tok = int(uniq[0] * 10)
                    h.clusters[k].empirical_covariance[...] = float(tok)
                    h.clusters[k].stacked_data_mean[...] = float(tok)
                    log({"op": op, "h": hi + 1, "slot": slot, "k": k + 1, "v": tok,
                         "vdig": proj.dig(h.clusters[k].empirical_covariance) + proj.dig(h.clusters[k].stacked_data_mean)})
                else:
                    tok = int(uniq[0] * 10)
                    h.clusters[k].train_inverse[...] = float(tok)
                    h.clusters[k].computed_covariance[...] = float(tok)
                    log({"op": op, "h": hi + 1, "slot": slot, "k": k + 1, "v": tok,
                         "vdig": proj.dig(h.clusters[k].train_inverse) + proj.dig(h.clusters[k].computed_covariance)})
                clean = False
        except (AssertionError, np.linalg.LinAlgError, ValueError, FloatingPointError):
            # a phase refused a (deliberately) corrupted state: stop this sequence here
            break
        if len(handles) >= 7:
            break
    return {"init": L0, "NP": NP, "K": K, "events": events, "raw": raw}
