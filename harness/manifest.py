"""Regenerates MANIFEST.json from the table below (python -m harness.manifest)."""
import json
import os

from . import common

CHECKS = {
    "C01": dict(level="model_checking", design="6/C01", technique="TLA+ spec (Labelling/LabellingImpl) model-checked with TLC + TLC trace validation of the real kernel in 3 execution modes",
                text="TLC proves, exhaustively over every cost table in small boxes, that a code-shaped model of the kernel refines "
                     "'return any minimum-cost sequence'; every record of the real kernel (3 execution modes, scalar/vector beta forms) is "
                     "accepted only if it is a step of that WHAT action, with TLC itself computing the minimum over K^T sequences.",
                note="integer/dyadic tables (exact in float64) with entries < 2^21; forward-DP oracle (model-checked equal to brute force) when K^T > 1024"),
    "C08": dict(level="model_checking", design="6/C08", technique="TLA+ spec (Repopulate/RepopulateImpl) model-checked with TLC; every TLC-enumerated behaviour replayed into the real code and validated by a TLC trace spec",
                text="TLC checks exhaustively (all size vectors, all spread rankings, several K and m) that a code-shaped model of the donor loop refines the "
                     "one-step WHAT relation that states C08 and that the wrong-end pop() branch is unreachable; every terminal behaviour TLC enumerates is "
                     "rebuilt as a real ModelState and the real function's outcome must be a step of the WHAT relation (which members move is free).",
                note="cluster spread realised as c*I covariances with distinct c; quick samples 5000 of the enumerated behaviours (stratified), thorough replays all"),
    "C10": dict(level="model_checking", design="6/C10", technique="TLA+ spec (Stacking/StackOps) model-checked with TLC + TLC trace validation of the real helpers on bit-pattern token arrays",
                text="The stacking/concatenation/split/pad pipeline is a TLA+ state machine whose invariants (no row mixes series, rows are windows, pad-after-split restores lengths) TLC checks on all "
                     "small tuples of series; the real helpers are run on arrays with pairwise distinct 64-bit cells for every shape in range and TLC compares each output cell's source with the specification's index map.",
                note="float64 inputs; signalling NaNs excluded; token map computed by the harness from bit patterns (projection kind P-tok)"),
    "C11": dict(level="model_checking", design="6/C11", technique="TLA+ spec (IndexMaps/IndexOps) theorems evaluated exhaustively by TLC + TLC trace validation of every helper output in shuffled call histories",
                text="TLC evaluates, for every size in the property's finite range, that the closed-form index equals the row-major rank by definition and that the Toeplitz classes partition the upper triangle; "
                     "every real helper output for the same range (called in interleaved shuffled order, because the helpers are memoised) is compared by TLC with the specification.",
                note="quick covers n<=60 plus {97,128,150} and N<=6,W<=8 plus three large shapes; thorough covers the whole range n<=150, N<=10, W<=14; round trips use finite normal token values (reinflation does (u+u^T)-diag(u) arithmetic)"),
}

TRACE_NOTE = ("complete runs are driven by seeded synthetic data (piecewise-stationary Gaussian, N<=4, W<=6, K<=5); real-valued clauses rest on "
              "observation predicates with stated tolerances (DESIGN 4.3); BLAS threads pinned; runs that do not complete are outside the quantifier")


def _t(level, design, technique, text, note=TRACE_NOTE):
    return dict(level=level, design=design, technique=technique, text=text, note=note)


CHECKS.update({
    "C04": _t("model_checking", "6/C04", "TLA+ Stacking model-checked with TLC + TLC trace validation (TraceTiccLoop/TraceStacking) of result shapes of complete runs",
              "Pad/Split/margin lemmas are invariants of the Stacking state machine checked by TLC on all small tuples; every completed run of both front ends returns a trace whose return event must satisfy the C04 clauses (lengths, exact -1 margins, range, order, K MRFs of NWxNW) computed by TLC from StackOps."),
    "C05": _t("model_checking", "6/C05", "TLC trace validation: TraceTiccLoop requires the Gaussian log-density observation at every Score (relabel) and at Return; exact dyadic family replayed into the kernels (TraceLikelihood)",
              "The specification demands at every relabel event that the likelihood table is the log-density under this round's means/MRFs and at return that each per-point value is the log-density under its own cluster; TLC decides where the obligation holds, an independent slogdet/Cholesky formula decides the real comparison."),
    "C06": _t("model_checking", "6/C06", "TLC trace validation (TraceTiccLoop, C06 clauses) with two-limb integer arithmetic: TLC recomputes every accounting identity",
              "Every completed run's result is quantised into two-limb integers and TLC recomputes entry counts, sums, means, medians, per-cluster aggregates and cost = -loglik + within-series switching cost from the label lists and series boundaries; the recorded deviation F2b is a named action."),
    "C07": _t("model_checking", "6/C07", "TLA+ Boundaries theorem + Stacking model-checked with TLC; TLC trace validation of mask helper, joint stacking, joint runs and single-vs-joint memo",
              "TLC proves on the model that a zero switching cost on boundary pairs decomposes the joint problem; the real mask helper and joint stacking are validated on every tuple in range; every joint run is validated against TiccLoop with the switching cost observed at the labelling step; F2b is a named deviation."),
    "C09": _t("model_checking", "6/C09", "TLA+ TiccLoop model-checked with TLC (all labellings, interleavings, faults) + TLC trace validation of every event of traced complete runs + behaviours of TiccLoop (tlc -simulate) replayed into the real loop as label scripts (DESIGN 12.7)",
              "TiccLoop is checked exhaustively on small instances (every initial labelling and relabelling, worker interleavings) for the bound on rounds, the stopping rule, the repopulation rule and 'returns what it scored'; every traced run must be a behaviour of the same specification with all invariants evaluated at every step."),
    "C12": _t("model_checking", "6/C12", "TLA+ TiccLoop provenance invariants (TLC) + TLC trace validation of statistics/submit events with the O1 observation",
              "Provenance of statistics and optimiser arguments is state of the specification; traces bind it to digests and the O1 observation (sample mean/covariance of exactly the windows labelled k with the requested estimator)."),
    "C16": _t("model_checking", "6/C16", "TLC trace validation (TraceTiccLoop return clause) + exact-family replay (TraceMetrics)",
              "Every completed run's BIC is compared with the definition recomputed from the final model (parameter count by maximal runs, T, log-det via slogdet); finiteness whenever the MRFs are positive definite."),
    "C17": _t("model_checking", "6/C17", "TLC trace validation (TraceTiccLoop return clause, converged runs) + exact rational replay (TraceMetrics); deviation F5 modelled",
              "For converged runs with every cluster non-empty the reported index must equal the definition with the per-column centroid; the recorded deviation F5 (scalar centre) is a named action that excuses only values equal to the scalar-centre formula."),
})

CHECKS.update({
    "C02": _t("model_checking", "6/C02", "TLA+ ZUpdate (exact subgradient optimality per Toeplitz class) and Admm (control flow) model-checked with TLC; exact integer replay of the real consensus step judged by TLC (TraceZUpdate); TLC trace validation (TraceAdmm) of every solver hook event, KKT certificate observation at Return",
              "Everything discrete about the solver is model-checked: the consensus step is the exact minimiser per Toeplitz class for scalar and symmetric-matrix lambda (and not for asymmetric lambda), the class maps partition the triangle, the control flow returns the last X and evaluates the stopping rule only from iteration 1. Real solves are validated event by event against Admm; the Return action requires the KKT certificate whenever the stopping rule fired and convergence in the unconditional regime.",
              "optimality comparison is the KKT observation O3 (Appendix C), a kind-4 predicate; convergence within budget is sampled"),
    "C03": _t("model_checking", "6/C03", "TLC trace validation: TiccLoop/TraceTiccLoop require the SPD and floor observations at every Gather/Score/Return; TraceAdmm requires SPD at solver exit over 24 orders of magnitude",
              "The specification places the obligation (every MRF stored by the optimise phase, scored against, or returned is SPD with finite log-determinant; floor semantics bitwise; all result floats finite) at the actions; runs over data scales 1e-6..1e6 and the solver entry point over covariance scales 1e-12..1e12 and every rank are validated; the floor is replayed exactly on integer matrices; the recorded finding F8 (one-window cluster under the unbiased estimator) is a named deviation action."),
    "C13": _t("model_checking", "6/C13", "TLA+ ModelHeap (object heap with aliasing) model-checked with TLC + TLC trace validation (TraceModelHeap) of random operation sequences on real objects and of every phase boundary of traced runs",
              "ModelHeap models the label list, member lists and arrays as heap objects with the exact sharing rules of shallow/deep copy and of the point_labels setter; TLC shows the four phases keep every state a partition and never alter their input, and exhibits the corruption for the raw 'shallow copy; assign' order. Real operation sequences (including in-place mutation probes) must reproduce the specification's heap after every step.",
              "'fitted statistics' = mean, empirical covariance, MRF, computed covariance; the scoring cache is refreshed in place by design"),
    "C14": _t("model_checking", "6/C14", "TLA+ Pool / TiccLoop model-checked with TLC (every completion order, worker count) + TLC memo-table trace validation (TraceMemo) across processes, worker counts, delays and histories",
              "Pool proves result k belongs to cluster k for every interleaving; complete results of runs with num_processors 1..8, multiprocessing off/on, seeded task delays and preceding calls must map to one digest per key in TLC's memo table; every gather event must be explained by a worker result computed from the covariance submitted for that cluster."),
    "C18": _t("model_checking", "6/C18", "TLC memo-table trace validation (TraceMemo): one result digest per by-value key across all equivalent parameter forms; ZUpdate proves scalar = constant-matrix branch",
              "Each run / optimiser call is executed once per equivalent form of lambda, beta and epsilon; the memo specification requires every form to complete and to produce the bit-identical result.",
              "bitwise equality only for values every form represents exactly (dyadic lambda/epsilon, integer beta)"),
    "C19": _t("model_checking", "6/C19", "TLC trace validation: every call/return/raise event carries digests of all caller-owned arguments before and after; the specifications require equality",
              "Labelling kernel, stacking and compression helpers, both front ends (series, matrix lambda, vector beta; read-only and Fortran-ordered), the optimiser entry point (solver driver incl. read-only inputs and covariances symmetric only up to round-off, exact consensus-step records), and every failing call of the fault corpus (injected faults, donor shortage, swapped inputs, invalid arguments)."),
    "C20": _t("fault_enumeration", "6/C20", "TLA+ Pool/TiccLoop model-checked with TLC incl. liveness; fault enumeration replayed into the real code (wrappers substituted from the harness) and validated by TLC (TraceTiccLoop raise clauses, TraceMemo)",
              "TLC explores every interleaving of workers with one injected failure and proves that the parent raises, returns nothing, leaves no worker and terminates; each (round, cluster) task fault and each phase fault is injected into real runs with 1-worker and 3-worker pools, each followed by a clean call whose result must equal the undisturbed baseline; donor shortage, swapped front-end inputs and seven kinds of invalid arguments must raise without leaving a worker; a call in which the injected fault fired must not return.",
              "a failing task is one that raises; a worker killed outright is outside the property"),
})

CHECKS.update({
    "C15": _t("model_checking", "6/C15", "TLA+ ParLoop (disjoint writes => schedule independence) model-checked with TLC + per-mode TLC trace validation (TraceLabelling, TraceMetrics) + TLC memo table across modes and thread counts",
              "ParLoop proves the table is independent of thread count and interleaving because cells are written by exactly one thread (and exhibits the lost update for a shared accumulator). The same batch of kernel inputs and complete runs is executed in separate processes for JIT disabled, Numba not importable and JIT with 1/2/4/8/16 threads; every record must satisfy the specification on its own and the memo specification demands equal labels/cost, bit-identical tables across thread counts and equal labels of complete runs.",
              "Numba thread interleavings are unobservable; only results are compared"),
})

PENDING_REASON = "check not built yet in this round (planned in DESIGN.md section 6); not claimed"


def main():
    props = []
    with open(os.path.join(common.VERIF, "properties.jsonl")) as fh:
        for line in fh:
            if line.strip():
                props.append(json.loads(line)["id"])
    man = {
        "version": 1,
        "setup_cmd": "./check setup",
        "hooks": {
            "guard": "FAST_TICC_VERIF",
            "enable": "export FAST_TICC_VERIF=1 (read at import of fast_ticc._verif_hooks); the harness then installs a sink with _verif_hooks.install_sink; no build step - checks import fast_ticc from /repo/src",
            "baseline_off_cmd": "cd /repo && env -u FAST_TICC_VERIF /venv/bin/python -m pytest -ra -q -p no:cacheprovider --timeout=900 --continue-on-collection-errors",
            "source_commits": SOURCE_COMMITS,
            "add_only": True,
        },
        "engines": [
            {"name": "tlc", "path": "/opt/veriftools/tla/tla2tools.jar", "serves_properties": sorted(CHECKS),
             "kind_free_text": "TLC 1.8 explicit-state model checker: exhaustive design-level checks of spec/*.tla and batch trace validation of implementation records (spec/Trace*.tla)"},
            {"name": "tlapm", "path": "/usr/local/bin/tlapm", "serves_properties": ["C09"],
             "kind_free_text": "TLA+ proof system: spec/LoopCoreProofs.tla (44 obligations) - unbounded safety of the control skeleton LoopCore that TiccLoop and TiccHeap are model-checked to refine; every obligation must be proved"},
        ],
        "checks": [],
        "not_applicable": [],
        "notes": "All verdicts are produced by TLC on explicit TLA+ specifications under /verif/spec (plus one TLAPS proof run by C09); see DESIGN.md. Exit 2 = machinery failure (never a violation).",
    }
    for pid in props:
        if pid in CHECKS:
            c = CHECKS[pid]
            man["checks"].append({
                "property_id": pid,
                "quick_cmd": f"./check {pid} --tier quick",
                "thorough_cmd": f"./check {pid} --tier thorough",
                "evidence_file": f"/verif/evidence/{pid}.json",
                "replay_cmd_template": f"./check {pid} --replay {{path}}",
                "engine": "tlc",
                "level_claimed": {"category": c["level"], "text": c["text"], "design_ref": c["design"]},
                "level_note": c["note"],
                "technique": c["technique"],
            })
        else:
            man["not_applicable"].append({"property_id": pid, "reason": NA.get(pid, PENDING_REASON)})
    with open(os.path.join(common.VERIF, "MANIFEST.json"), "w") as fh:
        json.dump(man, fh, indent=1)
    print("MANIFEST.json:", len(man["checks"]), "checks,", len(man["not_applicable"]), "not claimed")


SOURCE_COMMITS = ["5d3c2c3", "6e4f46b"]
FIX_COMMITS = ["84b773b", "5ef812d", "4fe1bb6", "c7c2170", "91550fd", "d50e1da", "211358d", "62eaea4", "d4d302d", "289a975", "f673a29"]
NA = {}

if __name__ == "__main__":
    main()
