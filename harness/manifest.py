"""Regenerates MANIFEST.json from the table below (python -m harness.manifest)."""
import json
import os

from . import common

CHECKS = {
    "C01": dict(level="model_checking", design="6/C01", technique="TLA+ spec (Labelling/LabellingImpl) model-checked with TLC + TLC trace validation of the real kernel in 3 execution modes",
                text="TLC proves, exhaustively over every cost table in small boxes, that a code-shaped model of the kernel refines "
                     "'return any minimum-cost sequence'; every record of the real kernel (3 execution modes, scalar/vector beta forms) is "
                     "accepted only if it is a step of that WHAT action, with TLC itself computing the minimum over K^T sequences.",
                note="integer/dyadic tables (exact in float64) with entries < 2^21; forward-DP oracle (model-checked equal to brute force) when K^T > 1024"),
}

PENDING_REASON = "check not built yet in this round (planned in DESIGN.md section 6); not claimed"


def main():
    props = []
    with open(os.path.join(common.VERIF, "properties.jsonl")) as fh:
        for line in fh:
            if line.strip():
                props.append(json.loads(line)["id"])
    man = {
        "version": 1,
        "setup_cmd": "./check setup",
        "hooks": {
            "guard": "FAST_TICC_VERIF",
            "enable": "export FAST_TICC_VERIF=1 (read at import of fast_ticc._verif_hooks); the harness then installs a sink with _verif_hooks.install_sink; no build step - checks import fast_ticc from /repo/src",
            "baseline_off_cmd": "cd /repo && env -u FAST_TICC_VERIF /venv/bin/python -m pytest -ra -q -p no:cacheprovider --timeout=900 --continue-on-collection-errors",
            "source_commits": SOURCE_COMMITS,
            "add_only": True,
        },
        "engines": [
            {"name": "tlc", "path": "/opt/veriftools/tla/tla2tools.jar", "serves_properties": sorted(CHECKS),
             "kind_free_text": "TLC 1.8 explicit-state model checker: exhaustive design-level checks of spec/*.tla and batch trace validation of implementation records (spec/Trace*.tla)"},
        ],
        "checks": [],
        "not_applicable": [],
        "notes": "All verdicts are produced by TLC on explicit TLA+ specifications under /verif/spec; see DESIGN.md. Exit 2 = machinery failure (never a violation).",
    }
    for pid in props:
        if pid in CHECKS:
            c = CHECKS[pid]
            man["checks"].append({
                "property_id": pid,
                "quick_cmd": f"./check {pid} --tier quick",
                "thorough_cmd": f"./check {pid} --tier thorough",
                "evidence_file": f"/verif/evidence/{pid}.json",
                "replay_cmd_template": f"./check {pid} --replay {{path}}",
                "engine": "tlc",
                "level_claimed": {"category": c["level"], "text": c["text"], "design_ref": c["design"]},
                "level_note": c["note"],
                "technique": c["technique"],
            })
        else:
            man["not_applicable"].append({"property_id": pid, "reason": NA.get(pid, PENDING_REASON)})
    with open(os.path.join(common.VERIF, "MANIFEST.json"), "w") as fh:
        json.dump(man, fh, indent=1)
    print("MANIFEST.json:", len(man["checks"]), "checks,", len(man["not_applicable"]), "not claimed")


SOURCE_COMMITS = ["5d3c2c3"]
NA = {}

if __name__ == "__main__":
    main()
