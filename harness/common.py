"""Shared plumbing: paths, seeds, evidence, verdict lines, known findings."""
import hashlib
import json
import os
import shutil
import sys
import tempfile
import time

VERIF = os.path.dirname(os.path.dirname(os.path.abspath(__file__)))
REPO = os.environ.get("VERIF_REPO", "/repo")
SPEC = os.path.join(VERIF, "spec")
if os.path.realpath(REPO) == "/repo":
    EVID = os.path.join(VERIF, "evidence")
    REPLAYS = os.path.join(VERIF, "replays")
else:           # a scratch copy (mutation testing): never touch the committed evidence / replays
    EVID = os.path.join(tempfile.gettempdir(), "verif-scratch-evidence")
    REPLAYS = os.path.join(tempfile.gettempdir(), "verif-scratch-replays")
PY = "/venv/bin/python"
NCPU = int(os.environ.get("VERIF_NCPU", str(os.cpu_count() or 4)))


def seed():
    try:
        return int(os.environ.get("VERIF_SEED", "0"))
    except ValueError:
        return 0


def repo_src():
    return os.path.join(REPO, "src")


def use_repo():
    """Make `import fast_ticc` resolve to $VERIF_REPO/src with hooks enabled and BLAS pinned."""
    import warnings
    warnings.filterwarnings("ignore")           # numpy RuntimeWarnings of degenerate statistics are expected noise
    os.environ.setdefault("PYTHONWARNINGS", "ignore")
    os.environ.setdefault("FAST_TICC_VERIF", "1")
    for v in ("OMP_NUM_THREADS", "OPENBLAS_NUM_THREADS", "MKL_NUM_THREADS"):
        os.environ.setdefault(v, "1")
    src = repo_src()
    if src not in sys.path:
        sys.path.insert(0, src)


def scratch(prefix="verif-"):
    return tempfile.mkdtemp(prefix=prefix)


def rm(path):
    shutil.rmtree(path, ignore_errors=True)


def src_tree_hash():
    """Digest of every .py under $VERIF_REPO/src/fast_ticc and of the harness + specs (cache key)."""
    h = hashlib.sha256()
    for root in (os.path.join(repo_src(), "fast_ticc"), os.path.join(VERIF, "harness"), SPEC):
        for d, dirs, files in sorted(os.walk(root)):
            dirs[:] = sorted(x for x in dirs if x != "__pycache__")
            for f in sorted(files):
                if f.endswith((".py", ".tla", ".cfg")):
                    p = os.path.join(d, f)
                    h.update(p.encode())
                    with open(p, "rb") as fh:
                        h.update(fh.read())
    return h.hexdigest()[:20]


class MachineryError(Exception):
    """The check itself failed (exit 2) - never reported as a violation."""


class Report:
    """Collects what a check covered, its violations and known findings; writes evidence."""

    def __init__(self, pid, tier, level):
        self.pid, self.tier, self.level = pid, tier, level
        self.t0 = time.time()
        self.cov = {"evaluations": 0, "distinct_nontrivial": 0, "rule": "", "samples": [],
                    "states": 0, "transitions": 0, "traces_validated_against_impl": 0}
        self.assumptions = []
        self.violations = []      # (clause, replay path, text)
        self.known = []           # (signature text)
        self.notes = {}
        self.regimes = {}

    # ---- coverage bookkeeping
    def add_tlc(self, res, label=None):
        self.cov["states"] += res.distinct
        self.cov["transitions"] += res.generated
        self.notes.setdefault("tlc_runs", []).append(
            {"label": label or res.label, "distinct": res.distinct, "generated": res.generated,
             "wall_s": round(res.wall, 2), "ok": res.ok})

    def sample(self, obj, cap=4):
        if len(self.cov["samples"]) < cap:
            self.cov["samples"].append(obj)

    def regime(self, name, n=1):
        self.regimes[name] = self.regimes.get(name, 0) + n

    # ---- verdicts
    def violation(self, clause, payload, text=""):
        os.makedirs(os.path.join(REPLAYS, self.pid), exist_ok=True)
        h = hashlib.sha256(json.dumps(payload, sort_keys=True, default=str).encode()).hexdigest()[:12]
        path = os.path.join(REPLAYS, self.pid, f"{clause}-{h}.json")
        self._per_clause = getattr(self, "_per_clause", {})
        self._per_clause[clause] = self._per_clause.get(clause, 0) + 1
        if self._per_clause[clause] > 5:            # keep at most 5 replay files per clause
            self.violations.append((clause, None, text))
            return None
        with open(path, "w") as fh:
            json.dump({"property": self.pid, "clause": clause, "text": text, "case": payload},
                      fh, indent=1, default=str)
        self.violations.append((clause, path, text))
        return path

    def known_finding(self, text):
        if text not in self.known:
            self.known.append(text)

    def finish(self):
        wall = time.time() - self.t0
        self.cov["regimes"] = self.regimes
        self.cov.update(self.notes)
        ev = {"property_id": self.pid, "tier": self.tier, "seed": seed(), "level": self.level,
              "coverage": self.cov, "assumptions": self.assumptions, "wall_s": round(wall, 2),
              "violations": len(self.violations)}
        os.makedirs(EVID, exist_ok=True)
        with open(os.path.join(EVID, f"{self.pid}.json"), "w") as fh:
            json.dump(ev, fh, indent=1, default=str)
        for k in self.known:
            print(f"KNOWN-FINDING: property={self.pid} {k}")
        for clause, n in sorted(getattr(self, "_per_clause", {}).items()):
            print(f"[{self.pid}] clause {clause}: {n} violating case(s)")
        for clause, path, text in self.violations:
            if path is not None:
                print(f"VIOLATION property={self.pid} replay={path}   # clause={clause} {text}")
        print(f"[{self.pid}] tier={self.tier} evaluations={self.cov['evaluations']} "
              f"states={self.cov['states']} traces={self.cov['traces_validated_against_impl']} "
              f"violations={len(self.violations)} known={len(self.known)} wall={wall:.1f}s")
        return 1 if self.violations else 0


def load_known_findings():
    p = os.path.join(VERIF, "known_findings.json")
    if not os.path.exists(p):
        return {"known": [], "fixed": []}
    with open(p) as fh:
        return json.load(fh)


def known_deviations(pid):
    """Ids of the deviation actions listed (as open findings) for property pid."""
    kf = load_known_findings()
    return sorted({e["deviation"] for e in kf.get("known", []) if pid in e["properties"]})


def known_signature(dev):
    for e in load_known_findings().get("known", []):
        if e["deviation"] == dev:
            return e["signature"]
    return dev


def pmap(fn, jobs, workers=None, stall_timeout=1200, retries=2):
    """Parallel map over processes (fork, NON-daemonic workers so that library code may open its own pool) with a
    watchdog: if no job completes for `stall_timeout` seconds the worker processes are killed and the unfinished
    jobs are retried in a fresh executor (a rare lost-wakeup deadlock of ProcessPoolExecutor was observed once:
    every worker idle, parent waiting).  Exhausted retries are a machinery failure, never a verdict."""
    import concurrent.futures as cf
    import multiprocessing as mp
    jobs = list(jobs)
    results = [None] * len(jobs)
    pending = list(range(len(jobs)))
    for attempt in range(retries + 1):
        if not pending:
            break
        ctx = mp.get_context("fork")
        ex = cf.ProcessPoolExecutor(max_workers=min(workers or NCPU, max(1, len(pending))), mp_context=ctx)
        futs = {ex.submit(fn, jobs[i]): i for i in pending}
        not_done = set(futs)
        stalled = False
        try:
            while not_done:
                done, not_done = cf.wait(not_done, timeout=stall_timeout, return_when=cf.FIRST_COMPLETED)
                if not done:
                    stalled = True
                    break
                for f in done:
                    results[futs[f]] = f.result()
                    pending.remove(futs[f])
        finally:
            if stalled:
                for p in list(getattr(ex, "_processes", {}).values()):
                    try:
                        p.kill()
                    except Exception:                    # pylint: disable=broad-except
                        pass
                ex.shutdown(wait=False, cancel_futures=True)
                print(f"WATCHDOG: parallel map stalled for {stall_timeout}s with {len(pending)} job(s) left; "
                      f"retry {attempt + 1}/{retries}", file=sys.stderr)
            else:
                ex.shutdown(wait=True)
    if pending:
        raise MachineryError(f"parallel map did not finish {len(pending)} job(s) after {retries} retries")
    return results


def _apply_chunk(arg):
    fn, chunk = arg
    return [fn(j) for j in chunk]


def pmap_chunked(fn, jobs, chunk=16, **kw):
    """pmap for many small jobs: `fn` must be a module-level function."""
    jobs = list(jobs)
    parts = [jobs[i:i + chunk] for i in range(0, len(jobs), chunk)]
    out = pmap(_apply_chunk, [(fn, p) for p in parts], **kw)
    return [r for part in out for r in part]
