"""Driver: one process history of index-map helper calls in a seed-shuffled interleaved order."""
import random

import numpy as np

from . import drv_stacking


def history(job):
    from harness import common
    common.use_repo()
    from fast_ticc import matrix_compression as mc
    from fast_ticc.admm import unique_values as uv
    sizes, shapes, pyseed = job
    rng = random.Random(pyseed)
    calls = []
    for n in sizes:
        for kind in ("cidx", "triu", "fullsize", "compress", "reinflate", "roundtrip"):
            calls.append((kind, n))
    for (N, W) in shapes:
        for b in range(W):
            for r in range(N):
                for c in range(r if b == 0 else 0, N):
                    calls.append(("class", (N, W, b, r, c)))
    rng.shuffle(calls)                       # interleave sizes and shapes: memoisation must not matter
    events, per_shape = [], {}
    for kind, a in calls:
        if kind == "cidx":
            n = a
            cells = [(r, c) for r in range(n) for c in range(r, n)]
            rng.shuffle(cells)
            events.append({"kind": "cidx", "n": n,
                           "cells": [[r, c, int(uv._compressed_index(r, c, n))] for r, c in cells]})
        elif kind == "triu":
            rows, cols = mc._upper_triangle_indices(a)
            events.append({"kind": "triu", "n": a, "rows": [int(x) for x in rows], "cols": [int(x) for x in cols]})
        elif kind == "fullsize":
            flat = a * (a + 1) // 2
            events.append({"kind": "fullsize", "n": a, "flat": flat, "out": int(mc._full_matrix_size(flat))})
        elif kind in ("compress", "reinflate", "roundtrip"):
            n = a
            tri = n * (n + 1) // 2
            cells = drv_stacking.distinct_finite_cells(rng, tri)
            lookup = {int(b): i for i, b in enumerate(cells.view(np.uint64))}
            full = np.zeros((n, n))
            iu = np.triu_indices(n)
            full[iu] = cells
            full.T[iu] = cells
            if kind == "compress":
                if rng.random() < 0.5:
                    full.setflags(write=False)
                snap = full.tobytes()
                out = mc.compress_matrix(full)
                events.append({"kind": "compress", "n": n, "out": drv_stacking.tokens(out, lookup),
                               "input_same": full.tobytes() == snap})
            elif kind == "reinflate":
                vec = cells.copy()
                if rng.random() < 0.5:
                    vec.setflags(write=False)
                snap = vec.tobytes()
                out = mc.reinflate_matrix(vec)
                tk = drv_stacking.tokens(out, lookup)
                events.append({"kind": "reinflate", "n": n, "out": [tk[r * n:(r + 1) * n] for r in range(n)],
                               "input_same": vec.tobytes() == snap})
            else:
                m2 = mc.reinflate_matrix(mc.compress_matrix(full))
                v2 = mc.compress_matrix(mc.reinflate_matrix(cells))
                events.append({"kind": "roundtrip", "n": n,
                               "matrix_same": m2.shape == full.shape and m2.tobytes() == full.tobytes(),
                               "vector_same": v2.shape == cells.shape and v2.tobytes() == cells.tobytes()})
        else:
            N, W, b, r, c = a
            comp = uv.locations_compressed(b, r, c, N, W)
            rows, cols = uv.locations_index_slices(b, r, c, N, W)
            per_shape.setdefault((N, W), []).append(
                {"b": b, "r": r, "c": c, "comp": [int(x) for x in comp],
                 "rows": [int(x) for x in rows], "cols": [int(x) for x in cols]})
    for (N, W), cls in per_shape.items():
        events.append({"kind": "classes", "N": N, "W": W, "classes": cls})
    return {"events": events, "sizes": list(sizes), "shapes": [list(s) for s in shapes]}
