"""Drivers: real data-preparation helpers on arrays whose cells carry pairwise distinct bit
patterns (incl. NaN payloads, +-0, +-inf); output cells are mapped back to input cells (P-tok)."""
import random
import struct

import numpy as np


def distinct_cells(rng, count):
    """`count` float64 values with pairwise distinct 64-bit patterns, including specials."""
    specials = [0x0000000000000000, 0x8000000000000000, 0x7FF0000000000000, 0xFFF0000000000000,
                0x7FF8000000000001, 0x7FF8000000000002, 0xFFF8000000000003, 0x7FFC0000DEADBEEF,
                0x0000000000000001, 0x8000000000000001, 0x7FEFFFFFFFFFFFFF, 0x3FF0000000000000]
    bits = []
    seen = set()
    for b in specials:
        if len(bits) < count // 3 + 1:
            bits.append(b)
            seen.add(b)
    while len(bits) < count:
        b = rng.getrandbits(64)
        # avoid signalling NaNs (top mantissa bit clear with exponent all ones), which some
        # copy paths may legitimately quieten; everything else is fair game
        if (b >> 52) & 0x7FF == 0x7FF and (b & 0xFFFFFFFFFFFFF) != 0 and not (b >> 51) & 1:
            continue
        if b not in seen:
            seen.add(b)
            bits.append(b)
    rng.shuffle(bits)
    return np.frombuffer(struct.pack(f"<{count}Q", *bits), dtype="<f8").copy()


def distinct_finite_cells(rng, count):
    """`count` pairwise distinct finite, non-zero, normal float64 values with |x| in [1e-150, 1e150]
    (both signs, full 52-bit mantissas): values on which arithmetic like (d + d) - d is exact."""
    seen, vals = set(), []
    while len(vals) < count:
        b = rng.getrandbits(64)
        e = (b >> 52) & 0x7FF
        if not 525 <= e <= 1521:
            continue
        if b not in seen:
            seen.add(b)
            vals.append(b)
    return np.frombuffer(struct.pack(f"<{count}Q", *vals), dtype="<f8").copy()


def tokens(out, lookup):
    flat = np.ascontiguousarray(out, dtype=np.float64).view(np.uint64).ravel()
    return [lookup.get(int(b), -1) for b in flat]


def pipeline(job):
    from harness import common
    common.use_repo()
    from fast_ticc import data_preparation as dp
    Ts, W, N, K, pyseed = job
    rng = random.Random(pyseed)
    total = sum(Ts) * N
    cells = distinct_cells(rng, total)
    in_dtype = np.float64
    if rng.random() < 0.15:
        # a float32 series (a stacked row must still be the input row, value for value): distinct finite float32 values
        in_dtype = np.float32
        vals = set()
        while len(vals) < total:
            v = np.float32(rng.uniform(-1e6, 1e6))
            if np.isfinite(v) and v != 0:
                vals.add(float(v))
        cells = np.array(sorted(vals), dtype=np.float64)
        rng.shuffle(cells)
    lookup = {int(b): i for i, b in enumerate(cells.view(np.uint64))}
    series, off = [], 0
    for T in Ts:
        a = cells[off:off + T * N].reshape(T, N).astype(in_dtype)
        lay = rng.random()
        if lay < 0.25:
            a = np.asfortranarray(a)
        elif lay < 0.4:
            big = np.asfortranarray(np.vstack([np.zeros((3, a.shape[1]), dtype=a.dtype), a]))
            a = big[3:]                                      # row slice of a column-major table: neither C nor F contiguous
        if rng.random() < 0.3:
            a.setflags(write=False)
        series.append(a)
        off += T * N
    snap = [s.tobytes() for s in series]
    ev = []
    ncols = N * W
    for si, a in enumerate(series):
        try:
            out = dp.stack_training_data(a, W)
            tk = tokens(out, lookup)
            rows = out.shape[0]
            ev.append({"kind": "stack", "s": si + 1,
                       "tok": [tk[r * out.shape[1]:(r + 1) * out.shape[1]] for r in range(rows)],
                       "input_same": a.tobytes() == snap[si]})
        except Exception as ex:                              # pylint: disable=broad-except
            ev.append({"kind": "stack", "s": si + 1, "tok": [], "input_same": a.tobytes() == snap[si],
                       "raised": type(ex).__name__ + ": " + str(ex)[:120]})
    try:
        out = dp.stack_training_data_multiple_series(series, W)
        tk = tokens(out, lookup)
        ev.append({"kind": "multi", "tok": [tk[r * out.shape[1]:(r + 1) * out.shape[1]] for r in range(out.shape[0])],
                   "input_same": all(a.tobytes() == s for a, s in zip(series, snap))})
    except Exception as ex:                                  # pylint: disable=broad-except
        ev.append({"kind": "multi", "tok": [], "input_same": all(a.tobytes() == s for a, s in zip(series, snap)),
                   "raised": type(ex).__name__ + ": " + str(ex)[:120]})
    lens = [T - W + 1 for T in Ts]
    # a helper that RAISES on a valid input is recorded as an empty output: the shape clause of its event then
    # fails under the helper's own property (never a crash of the driver)
    try:
        tpl = dp.label_switching_cost_template(list(lens) if rng.random() < 0.5 else tuple(lens))
        ev.append({"kind": "template", "out": [int(v) if float(v) == int(v) else -7 for v in tpl]})
    except Exception as ex:                                  # pylint: disable=broad-except
        ev.append({"kind": "template", "out": [], "raised": type(ex).__name__ + ": " + str(ex)[:120]})
    joint = [rng.randrange(K) for _ in range(sum(lens))]
    try:
        parts = dp.split_joint_labels(list(joint), list(lens))
        ev.append({"kind": "split", "joint": joint, "out": [[int(x) for x in p] for p in parts]})
    except Exception as ex:                                  # pylint: disable=broad-except
        parts = []
        ev.append({"kind": "split", "joint": joint, "out": [], "raised": type(ex).__name__ + ": " + str(ex)[:120]})
    for si, p in enumerate(parts):
        try:
            padded = dp.pad_missing_labels(list(p), W)
            ev.append({"kind": "pad", "s": si + 1, "part": [int(x) for x in p], "out": [int(x) for x in padded]})
        except Exception as ex:                              # pylint: disable=broad-except
            ev.append({"kind": "pad", "s": si + 1, "part": [int(x) for x in p], "out": [],
                       "raised": type(ex).__name__ + ": " + str(ex)[:120]})
    return {"Ts": list(Ts), "W": W, "N": N, "events": ev}
