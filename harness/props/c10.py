"""C10 - window stacking is exact and never crosses a series boundary."""
import concurrent.futures as cf
import multiprocessing as mp
import random

from .. import common, tlc, tracecheck, drv_stacking

LEVEL = "model_checking"
MODEL_CFGS = ["a", "b", "c", "d", "e", "f"]


def jobs_for(tier, rng):
    jobs = []
    if tier == "quick":
        Ws, extra, Ns, ntup = range(1, 7), 8, range(1, 4), 60
    else:
        Ws, extra, Ns, ntup = range(1, 13), 40, range(1, 7), 500
    # histories: consecutive calls IN ONE PROCESS whose stacked outputs have the same shape (rows, N*W) but another
    # split of N*W into sensors and window - a memo keyed on the output shape would serve the wrong index map
    # (groups of 4 so that a group never straddles two chunks of the parallel map)
    pairs = [((n1, w1), (n2, w2)) for n1 in Ns for w1 in Ws for n2 in Ns for w2 in Ws
             if n1 * w1 == n2 * w2 and n1 < n2]
    rng.shuffle(pairs)
    for (n1, w1), (n2, w2) in pairs[:12 if tier == "quick" else 60]:
        rows = rng.choice([2, 3, 5])
        a = ((rows + w1 - 1,), w1, n1, 3, rng.randrange(1 << 30))
        b = ((rows + w2 - 1,), w2, n2, 3, rng.randrange(1 << 30))
        jobs += [a, b, a, ((rows + w2 - 1, rows + w2 - 1), w2, n2, 3, rng.randrange(1 << 30))]
    # ... and consecutive calls on tuples with the same NUMBER of series and the same TOTAL length but another
    # composition (a mask or split memoised on (count, total) would serve the wrong boundaries)
    for g in range(6 if tier == "quick" else 40):
        W = rng.choice(list(Ws))
        N = rng.choice(list(Ns))
        a, b, c3 = W + rng.randint(1, 6), W + rng.randint(7, 12), W + rng.randint(0, 3)
        sd = rng.randrange(1 << 30)
        if g % 2 == 0:
            jobs += [((a, b), W, N, 3, sd), ((b, a), W, N, 3, sd + 1), ((a + 1, b - 1), W, N, 3, sd + 2), ((a, b), W, N, 3, sd + 3)]
        else:
            jobs += [((a, b, c3), W, N, 3, sd), ((c3, a, b), W, N, 3, sd + 1), ((b, c3, a), W, N, 3, sd + 2), ((a, b, c3), W, N, 3, sd + 3)]
    for g in range(6 if tier == "quick" else 30):
        W = rng.choice(list(Ws))
        N = rng.choice(list(Ns))
        a, d = W + rng.randint(6, 12), rng.randint(1, 3)            # a - 2d >= W: every series holds at least one window
        jobs.append(((a, a - d, a + d), W, N, 3, rng.randrange(1 << 30)))              # mean length == first length
        jobs.append(((a, a + d, a - 2 * d, a + d), W, N, 3, rng.randrange(1 << 30)))
    for W in Ws:
        for T in range(W, W + extra + 1):
            for N in Ns:
                jobs.append(((T,), W, N, 3, rng.randrange(1 << 30)))
    for _ in range(ntup):
        W = rng.choice(list(Ws))
        N = rng.choice(list(Ns))
        n = rng.randint(2, 6)
        Ts = tuple(rng.choice([W, W, W + 1, W + rng.randint(0, 12)]) for _ in range(n))
        jobs.append((Ts, W, N, rng.randint(2, 5), rng.randrange(1 << 30)))
    return jobs


def model_checks(rep, module, cfgs):
    from . import _common
    _common.model_checks(rep, [(module, f"{module}_{c}.cfg") for c in cfgs])


def run_pipeline_traces(rep, tier, enforced, seedmix):
    rng = random.Random(common.seed() * 15485863 + seedmix)
    jobs = jobs_for(tier, rng)
    traces = common.pmap_chunked(drv_stacking.pipeline, jobs, chunk=8)
    accepted, failures, results = tracecheck.validate("TraceStacking", traces, enforced)
    for r in results:
        rep.add_tlc(r)
    rep.cov["evaluations"] = sum(len(t["events"]) for t in traces)
    rep.cov["traces_validated_against_impl"] = len(accepted)
    for gi, fl in sorted(failures.items()):
        t = traces[gi]
        slim = {"Ts": t["Ts"], "W": t["W"], "N": t["N"], "clauses": fl,
                "events": [e for e in t["events"] if e["kind"] in ("template", "pad", "split")][:6]}
        rep.violation(fl[0][1], slim, f"Ts={t['Ts']} W={t['W']} N={t['N']}")
    return traces, accepted, failures


def run(tier):
    rep = common.Report("C10", tier, LEVEL)
    model_checks(rep, "Stacking", MODEL_CFGS)
    traces, accepted, failures = run_pipeline_traces(rep, tier, {"C10"}, 10)
    rep.cov["distinct_nontrivial"] = len({(tuple(t["Ts"]), t["W"], t["N"]) for t in traces if t["W"] > 1})
    rep.cov["rule"] = ("every (T in [W,W+extra], W, N) single series and random tuples of 2..6 series with unequal "
                       "lengths (incl. series of exactly W rows); cells carry pairwise distinct 64-bit patterns incl. "
                       "NaN payloads, +-0, +-inf, denormals; each output cell mapped back to its source cell and compared "
                       "by TLC with the specification's index map; non-trivial = distinct shapes with W > 1")
    rep.cov["exhaustive"] = True
    t0 = traces[0]
    rep.sample({"Ts": t0["Ts"], "W": t0["W"], "N": t0["N"], "events": [e["kind"] for e in t0["events"]],
                "first_stack_row_tokens": t0["events"][0]["tok"][0]})
    rep.assumptions += ["float64 inputs; signalling NaNs excluded (a copy may legitimately quieten them)"]
    return rep.finish()
