"""C09 - main loop: bounded, stops only at a fixed point, returns what it scored."""
from . import _common

LEVEL = "model_checking"


def run(tier):
    return _common.corpus_property(
        "C09", tier, LEVEL, models=[("MC_LoopCore", "MC_LoopCore_a.cfg"), ("TiccHeap", "TiccHeap_q.cfg")] + list(_common.TICC_MODELS[tier]),
        need=("converged", "limit_reached", "repopulated", "rounds_1", "rounds_2plus", "multi_series"),
        rule=("seeded piecewise-stationary Gaussian data sets x hyper-parameters (limits 1..10, K 2..5, W 1..6, "
              "single and joint front ends); every event of every completed run must be a step of TiccLoop with "
              "all its invariants; non-trivial = distinct runs with at least 2 rounds"),
        nontrivial=lambda t: (t["hdr"]["id"],) if sum(1 for e in t["events"] if e["ev"] == "round_begin") >= 2 else None,
        extra=_common.scripted_extra("C09"),
        assumptions=["scripted runs (harness/scripted.py): the mixture-model initialisation and the likelihood table are substituted "
                     "from the harness so that the real loop is taken through the label sequences of TiccLoop behaviours",
                     "ranking ties in cluster spread (never observed) would be resolved existentially"])
