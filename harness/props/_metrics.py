"""Shared exact-family part of C05 / C16 / C17 (spec -> code direction)."""
import json
import multiprocessing as mp
import random

from .. import common, tracecheck, modes, drv_metrics


def _json_safe(results):
    out = []
    for r in results:
        if "error" in r:
            out.append(r)
            continue
        out.append(r)
    return out


def ll_family(rep, tier, enforced, mode="jit"):
    rng = random.Random(common.seed() * 7001 + 5)
    sizes = [1, 2, 3, 6, 12, 30, 60, 120, 200] if tier == "quick" else [1, 2, 3, 4, 6, 8, 12, 20, 30, 48, 60, 90, 120, 160, 200]
    cases = drv_metrics.ll_cases(rng, 27 if tier == "quick" else 300, sizes)
    # NaN/inf are not valid JSON for our worker protocol: the worker returns floats, json handles inf via allow_nan
    results = modes.run_cases(cases, mode)
    recs = []
    for c, r in zip(cases, results):
        if "error" in r:
            rep.violation("likelihood_function_raised", {"n": c["n"], "result": r}, r["error"])
            continue
        recs += drv_metrics.ll_records(c, r)
    ocases = drv_metrics.llobs_cases(rng, 16 if tier == "quick" else 160)
    for c, r in zip(ocases, modes.run_cases(ocases, mode)):
        if "error" in r:
            rep.violation("likelihood_function_raised", {"n": c["n"], "result": r}, r["error"])
            continue
        recs += drv_metrics.llobs_records(c, r)
    return validate(rep, recs, enforced, "ll")


def validate(rep, recs, enforced, what):
    devs = sorted({d for p in enforced for d in common.known_deviations(p)})
    kd = "{" + ", ".join(f'"{d}"' for d in devs) + "}"
    acc, fail, res = tracecheck.validate("TraceMetrics", recs, enforced, extra_constants={"KnownDeviations": kd})
    for r in res:
        rep.add_tlc(r)
    rep.cov["evaluations"] += len(recs)
    rep.cov["traces_validated_against_impl"] += len(acc)
    for gi, devset in sorted(tracecheck.validate.known.items()):
        for (_, dev) in sorted(devset):
            rep.known_finding(common.known_signature(dev))
    for gi, fl in sorted(fail.items()):
        r = recs[gi]
        slim = {k: (v if not isinstance(v, list) or len(json.dumps(v)) < 400 else "...") for k, v in r.items()}
        rep.violation(fl[0][1], {"record": slim, "clauses": fl},
                      f"{what} n={r.get('n')} sumE={r.get('sumE')}")
    rep.regime("exact_family_" + what, len(recs))
    return recs, acc, fail


def bic_family(rep, tier, enforced):
    rng = random.Random(common.seed() * 7003 + 16)
    jobs = [(n, rng.randint(1, 4), rng.randint(2, 40), rng.randrange(1 << 30), fam)
            for fam in ("bic", "bic_over", "bic_under")
            for n in ([1, 2, 5, 12, 40, 80, 120] * (1 if tier == "quick" else 10))]
    recs = common.pmap_chunked(drv_metrics.bic_job, jobs, chunk=4)
    return validate(rep, recs, enforced, "bic")


def ch_family(rep, tier, enforced):
    rng = random.Random(common.seed() * 7005 + 17)
    jobs = [(rng.randint(3, 6), rng.randint(1, 3), 2 + (i % 2), rng.randrange(1 << 30))
            for i in range(60 if tier == "quick" else 1500)]
    jobs = [j for j in jobs if j[0] > j[2]]
    recs = common.pmap_chunked(drv_metrics.ch_job, jobs, chunk=8)
    return validate(rep, recs, enforced, "ch")


def big_family(rep, tier, enforced):
    """Long runs (T about 9 000 .. 14 000: clusters larger than 4096 and 8192 windows)."""
    from .. import corpus

    def build():
        rng = random.Random(common.seed() * 7011 + 6)
        jobs = [(9000 + rng.randint(0, 900), 1, 2, 2, 4, rng.randrange(1 << 30)),
                (13000 + rng.randint(0, 900), 2, 1, 2, 6, rng.randrange(1 << 30))]
        # ... and a run with MANY clusters (labels beyond one signed byte), on a noisy ramp so that most of them stay in use
        jobs.append((2800 + rng.randint(0, 200), 1, 3, 140, 3, rng.randrange(1 << 30)))
        if tier == "thorough":
            jobs += [(9000 + rng.randint(0, 5000), rng.choice([1, 2]), rng.choice([1, 2, 3]), rng.choice([2, 3]), 5,
                      rng.randrange(1 << 30)) for _ in range(10)]
        return common.pmap(drv_metrics.big_job, jobs)
    recs = corpus.cached(f"bigruns_{tier}_{common.seed()}", build)
    for r in recs:
        if r.get("clustersInUse", 0) > 128:
            rep.regime("run_with_more_than_128_clusters_in_use")
        rep.regime("long_run_largest_cluster_over_4096" if r.get("largestCluster", 0) > 4096 else "long_run_small_clusters")
        if r.get("converged") and r.get("allNonEmpty"):
            rep.regime("long_run_converged_all_non_empty")
    if not any(r.get("largestCluster", 0) > 4096 for r in recs):
        raise common.MachineryError("long runs: no cluster above 4096 windows (anti-vacuity)")
    return validate(rep, recs, enforced, "big")


def floor_family(rep, tier, enforced):
    rng = random.Random(common.seed() * 7007 + 3)
    jobs = [(n, eps, how, rng.randrange(1 << 30)) for n in (1, 2, 3, 4) for eps in (0, 1, 2, 3)
            for how in ("copy", "inplace", "reconstruct") for _ in range(2 if tier == "quick" else 40)]
    # the same at floors of 2^-40 .. 2^-80 (far below machine epsilon: a floor is a floor however small)
    jobs += [(n, eps, how, rng.randrange(1 << 30), sh) for n in (2, 3) for eps in (1, 2, 3) for sh in (40, 60, 80)
             for how in ("copy", "inplace", "reconstruct") for _ in range(1 if tier == "quick" else 8)]
    recs = common.pmap_chunked(drv_metrics.floor_job, jobs, chunk=8)
    return validate(rep, recs, enforced, "floor")
