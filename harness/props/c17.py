"""C17 - Calinski-Harabasz index matches its definition (end-to-end half)."""
from . import _common, _metrics

LEVEL = "model_checking"


def run(tier):
    return _common.corpus_property(
        "C17", tier, LEVEL, models=[("Metrics", "Metrics_a.cfg")] + ([("Metrics", "Metrics_b.cfg")] if tier == "thorough" else []),
        need=('converged','converged_after_repopulation_with_every_cluster_non_empty'),
        rule="""every converged completed run with all clusters non-empty""",
        extra=lambda rep, trs, tier: (_metrics.ch_family(rep, tier, {"C17"}), _metrics.big_family(rep, tier, {"C17"})),
        nontrivial=lambda t: (t['hdr']['id'],) if any(e['ev']=='converged' for e in t['events']) else None)
