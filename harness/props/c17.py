"""C17 - Calinski-Harabasz index matches its definition (end-to-end half)."""
from . import _common

LEVEL = "model_checking"


def run(tier):
    return _common.corpus_property(
        "C17", tier, LEVEL, models=(),
        need=('converged',),
        rule="""every converged completed run with all clusters non-empty""",
        nontrivial=lambda t: (t['hdr']['id'],) if any(e['ev']=='converged' for e in t['events']) else None)
