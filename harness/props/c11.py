"""C11 - compressed-matrix and Toeplitz-class index maps are exact bijections."""
import multiprocessing as mp
import random

from .. import common, tracecheck
from . import c10

LEVEL = "model_checking"


def run(tier):
    rep = common.Report("C11", tier, LEVEL)
    rng = random.Random(common.seed() * 32452843 + 11)
    if tier == "quick":
        c10.model_checks(rep, "IndexMaps", ["a", "classes"])
        sizes = list(range(1, 61)) + [97, 128, 150]
        shapes = [(N, W) for N in range(1, 7) for W in range(1, 9)] + [(10, 14), (7, 13), (9, 2)]
        nh = 16
    else:
        c10.model_checks(rep, "IndexMaps", ["a", "rank", "classes"])
        sizes = list(range(1, 151))
        shapes = [(N, W) for N in range(1, 11) for W in range(1, 15)]
        nh = 32
    # several process histories; each gets a different interleaving of an (overlapping) subset
    jobs = []
    for h in range(nh):
        ss = [n for i, n in enumerate(sizes) if (i + h) % (nh // 2) == 0 or rng.random() < 0.05]
        sh = [s for i, s in enumerate(shapes) if (i + h) % (nh // 2) == 0 or rng.random() < 0.05]
        jobs.append((ss, sh, rng.randrange(1 << 30)))
    traces = common.pmap(drv_indexmaps_history, jobs)
    accepted, failures, results = tracecheck.validate("TraceIndexMaps", traces, {"C11"})
    for r in results:
        rep.add_tlc(r)
    rep.cov["evaluations"] = sum(len(t["events"]) for t in traces)
    rep.cov["traces_validated_against_impl"] = len(accepted)
    for gi, fl in sorted(failures.items()):
        t = traces[gi]
        bad = [t["events"][f[2] and int(__import__('harness.tlc', fromlist=['x']).parse_tuple(f[2])[2]) - 1]
               for f in fl[:1] if f[2]]
        slim = [{k: (v if not isinstance(v, list) or len(v) < 40 else v[:40]) for k, v in e.items()} for e in bad]
        rep.violation(fl[0][1], {"clauses": fl, "event": slim, "sizes": t["sizes"], "shapes": t["shapes"]})
    covered_sizes = {n for t in traces for n in t["sizes"]}
    covered_shapes = {tuple(s) for t in traces for s in t["shapes"]}
    rep.notes["sizes_covered"] = len(covered_sizes)
    rep.notes["shapes_covered"] = len(covered_shapes)
    if covered_sizes != set(sizes) or covered_shapes != set(shapes):
        raise common.MachineryError("driver did not cover the whole range")
    rep.cov["distinct_nontrivial"] = len({n for n in covered_sizes if n > 1}) + len(
        {s for s in covered_shapes if s[0] * s[1] > 1})
    rep.cov["rule"] = ("all matrix sizes n in range and all (N,W) in range; helpers called in seed-shuffled interleaved "
                       "order in several process histories (memoisation); token matrices with distinct bit patterns; "
                       "non-trivial = distinct sizes n>1 plus distinct shapes with N*W>1")
    rep.cov["exhaustive"] = True
    e0 = [e for e in traces[0]["events"] if e["kind"] == "classes"][:1]
    if e0:
        rep.sample({"kind": "classes", "N": e0[0]["N"], "W": e0[0]["W"], "first_classes": e0[0]["classes"][:3]})
    rep.assumptions += ["trace oracle RankClosed; IndexMaps.tla model-checks RankClosed = RankByDef and bijectivity"]
    return rep.finish()


def drv_indexmaps_history(job):
    from .. import drv_indexmaps
    return drv_indexmaps.history(job)
