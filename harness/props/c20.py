"""C20 - failures surface as exceptions, never as a partial result."""
from .. import common, corpus, faultruns, runs, tracecheck
from . import _common

LEVEL = "fault_enumeration"


def run(tier):
    rep = common.Report("C20", tier, LEVEL)
    _common.model_checks(rep, [("Pool", "Pool_a.cfg"), ("Pool", "Pool_b.cfg"),
                               ] + list(_common.TICC_MODELS[tier]) +
                         ([("Pool", "Pool_c.cfg")] if tier == "thorough" else []))
    fc = corpus.cached(f"faults_{tier}_{common.seed()}", lambda: faultruns.build_fault_corpus(tier))
    exps = fc["experiments"]
    ftraces, memo, points = [], [], set()
    for e in exps:
        for key in ("A", "F", "B"):
            if key in e and "driver_error" in e[key]:
                raise common.MachineryError(e[key]["driver_error"])
        if "skipped" in e:
            rep.regime("skipped:" + e["skipped"])
            continue
        F = e["F"]
        if F["events"][-1]["ev"] == "return" and not F["hdr"].get("faultFired"):
            # the injected fault did not fire (e.g. the run converged before that round): no verdict
            rep.regime("fault_not_reached")
            continue
        if F["events"][-1]["ev"] == "return":
            rep.regime("fault_fired_but_call_returned")
        ftraces.append(F)
        points.add((tuple(e["what"]), e["P"], e["mp"], F["hdr"]["id"]))
        rep.regime("fault:" + str(e["what"][0]) + (":" + str(e["what"][1]) if e["what"][0] == "phase" else ""))
        rep.regime("pool:P%d_mp%s" % (e["P"], e["mp"]))
        A, B = e["A"], e["B"]
        memo.append({"pid": "C20", "clause": "call_after_a_failed_call_behaves_as_if_it_had_not_happened",
                     "events": [{"key": "k", "dig": A["hdr"].get("resultDig", "none"), "completed": True, "tag": "A"},
                                {"key": "k", "dig": B["hdr"].get("resultDig", "raised"),
                                 "completed": B["events"][-1]["ev"] == "return", "tag": "B after F"}]})
    extra = fc["extra"]
    for t in extra:
        if "driver_error" in t:
            raise common.MachineryError(t["driver_error"])
        last = t["events"][-1]
        if last["ev"] == "raise" and t["hdr"]["fault"]["kind"] == "donor" and last["type"] != "RuntimeError":
            # the run failed for another reason before any donor was needed (e.g. a one-point cluster
            # whose unbiased covariance is undefined): not the situation this experiment is about
            rep.regime("donor_experiment_failed_differently:" + last["type"])
        elif last["ev"] == "raise":
            ftraces.append(t)
            rep.regime("expected:" + t["hdr"]["fault"]["kind"])
        else:
            rep.regime("expected_failure_did_not_occur:" + t["hdr"]["fault"]["kind"])
            if t["hdr"]["fault"]["kind"] == "donor":
                # the call came back although no cluster could give: the trace is judged like the others (the model has
                # no step by which a loop facing a donor shortage returns a result), and the experiment counts as made
                ftraces.append(t)
                rep.regime("expected:donor")
            if t["hdr"]["fault"]["kind"] == "wrong_front_end":
                rep.violation("wrong_front_end_input_accepted", {"cfg": t["hdr"]["cfg"]},
                              "a front end accepted the other front end's kind of input")
    need = ["fault:task", "fault:phase:statistics", "fault:phase:relabel", "pool:P3_mpTrue", "pool:P1_mpFalse",
            "expected:wrong_front_end", "expected:donor"]
    missing = [n for n in need if n not in rep.regimes]
    if missing:
        raise common.MachineryError(f"C20: fault corpus did not enter {missing}")
    views = [runs.tlc_view(t) for t in ftraces]
    acc, fail, res = tracecheck.validate("TraceTiccLoop", views, {"C20"}, spec="TraceSpec",
                                         extra_constants={"KnownDeviations": "{}", "FixedCode": "TRUE",
                                                          "Configs": "{}"})
    for r in res:
        rep.add_tlc(r)
    for gi, fl in sorted(fail.items()):
        t = ftraces[gi]
        rep.violation(fl[0][1], {"cfg": t["hdr"]["cfg"], "fault": t["hdr"]["fault"], "clauses": fl,
                                 "raise": {k: v for k, v in t["events"][-1].items() if k != "tb"},
                                 "where": corpus.failing_event(views[gi], fl)},
                      f"fault={t['hdr']['fault']} P={t['hdr']['P']} mp={t['hdr']['mp']}")
    acc2, fail2, res2 = tracecheck.validate("TraceMemo", memo, {"C20"})
    for r in res2:
        rep.add_tlc(r)
    for gi, fl in sorted(fail2.items()):
        rep.violation(fl[0][1], {"events": memo[gi]["events"], "clauses": fl})
    # success paths: every completed run of the corpus closes its pool
    trs = corpus.get(tier)
    corpus.validate_property(rep, "C20", corpus.completed(trs))
    # scripted runs: donor shortage in the real loop (RuntimeError naming it, no worker left, no result)
    from .. import drv_scripts
    drv_scripts.validate(rep, "C20", tier)
    rep.cov["evaluations"] += len(ftraces) + 2 * len(memo)
    rep.cov["traces_validated_against_impl"] += len(acc) + len(acc2)
    rep.cov["distinct_nontrivial"] = len(points)
    rep.cov["rule"] = ("a fault injected (by substituting wrappers from the harness, no repository change) at each (round, cluster) "
                       "optimisation task and at each call of each phase function, for pools (1 worker, MP off) and (3 workers, MP on), "
                       "each as clean call A -> faulty call F -> clean call B in one process; plus donor shortage and five shapes of "
                       "swapped front-end input; non-trivial = distinct fault points that actually fired")
    rep.cov["exhaustive"] = True
    if ftraces:
        t = ftraces[0]
        rep.sample({"fault": t["hdr"]["fault"], "P": t["hdr"]["P"], "mp": t["hdr"]["mp"],
                    "events": [e["ev"] + (":" + e["name"] if e["ev"] == "phase" else "") for e in t["events"]],
                    "raise": {k: v for k, v in t["events"][-1].items() if k != "tb"}})
    rep.assumptions += ["a 'failing task' is one that raises; a worker process killed outright is outside the property (DESIGN 8)",
                        "live children are counted with multiprocessing.active_children() while the caller still holds the exception"]
    return rep.finish()
