"""C16 - BIC matches its definition (end-to-end half)."""
from . import _common, _metrics

LEVEL = "model_checking"


def run(tier):
    return _common.corpus_property(
        "C16", tier, LEVEL, models=(),
        need=('empty_final_cluster','scaled_data','floor_below_bic_threshold'),
        rule="""every completed run: BIC recomputed from the final model by definition (slogdet), parameter count by maximal runs""",
        extra=lambda rep, trs, tier: (_metrics.bic_family(rep, tier, {"C16"}), _metrics.big_family(rep, tier, {"C16"})),
        nontrivial=lambda t: (t['hdr']['id'],))
