"""C08 - cluster repopulation conserves points and never starves a donor."""
import concurrent.futures as cf
import multiprocessing as mp
import random

from .. import common, tlc, tracecheck

LEVEL = "model_checking"
CFGS = {"quick": ["a", "b", "c", "d"], "thorough": ["a", "b", "c", "d", "e", "f"]}
DUMP = {"quick": ["b", "c", "d"], "thorough": ["a", "b", "c", "d", "f"]}
CONST = {"a": (4, 2, 8), "b": (3, 1, 5), "c": (3, 3, 11), "d": (4, 1, 5), "e": (5, 2, 8), "f": (4, 3, 11)}


def build_and_run(job):
    """Build a real ModelState realising (sizes, rank, m), run repopulation, record what happened."""
    common.use_repo()
    import numpy as np
    from fast_ticc.containers import arguments, model_state
    from fast_ticc import cluster_maintenance
    from .. import proj
    sizes, rank, m, pyseed = job
    K = len(sizes)
    r = random.Random(pyseed)
    labels = [k for k in range(K) for _ in range(sizes[k])]
    r.shuffle(labels)
    args = arguments.UserArguments(sparsity_weight=0.1, iteration_limit=3, label_switching_cost=1.0,
                                   min_cluster_size=m, min_meaningful_covariance=0, num_clusters=K,
                                   num_processors=1, window_size=1, biased_covariance=False)
    data = np.zeros((len(labels), 2))
    model = model_state.ModelState.empty_model(args, data)
    model.point_labels = list(labels)
    for pos, k in enumerate(rank):                       # rank[0] has the largest spread
        model.clusters[k].computed_covariance = np.eye(2) * float(len(rank) - pos)
        model.clusters[k].empirical_covariance = np.eye(2)
        model.clusters[k].stacked_data_mean = np.zeros(2)
        model.clusters[k].train_inverse = np.eye(2)
    d0 = proj.model_digest(model)
    rec = {"K": K, "m": m, "rank": list(rank), "before": list(labels), "error": False, "after": [],
           "members": [], "errtype": "", "names_shortage": False, "seed": pyseed}
    random.seed(pyseed)
    try:
        out = cluster_maintenance.repopulate_empty_clusters(model)
        rec["after"] = [int(x) for x in out.point_labels]
        rec["members"] = proj.members_of(out)
        rec["same_object"] = out is model
    except Exception as ex:                              # pylint: disable=broad-except
        rec["error"] = True
        rec["errtype"] = type(ex).__name__
        msg = str(ex)
        rec["message"] = msg[:200]
        rec["names_shortage"] = ("donor" in msg.lower()) and (str(2 * m) in msg)
    rec["input_after"] = [int(x) for x in model.point_labels]
    rec["input_same"] = proj.model_digest(model) == d0
    return rec


def dump_behaviours(cfg):
    """TLC enumerates the HOW model and prints every terminal behaviour (spec -> code)."""
    K, M, MX = CONST[cfg]
    d = common.scratch("dump-")
    try:
        import os
        p = os.path.join(d, "dump.cfg")
        with open(p, "w") as fh:
            fh.write(f"SPECIFICATION Spec\nCONSTANTS\n  K = {K}\n  M = {M}\n  MaxSize = {MX}\nCONSTRAINT Dump\n")
        res = tlc.run("RepopulateImpl", p, workers=4, label=f"RepopulateImpl/dump_{cfg}")
        tlc.need_ok(res)
        behs = []
        for line in res.lines_with("BEH"):
            t = tlc.parse_tuple(line)
            behs.append({"sizes": t[1], "rank": t[2], "final": t[3], "pc": t[4], "m": M})
        return res, behs
    finally:
        common.rm(d)


def run(tier):
    rep = common.Report("C08", tier, LEVEL)
    rng = random.Random(common.seed() * 104729 + 8)
    cfgs = CFGS[tier]
    with cf.ThreadPoolExecutor(max_workers=len(cfgs) + len(DUMP[tier])) as ex:
        mc = [ex.submit(tlc.run, "RepopulateImpl", f"RepopulateImpl_{c}.cfg",
                        workers=max(2, common.NCPU // len(cfgs))) for c in cfgs]
        dumps = [ex.submit(dump_behaviours, c) for c in DUMP[tier]]
        for f in mc:
            res = f.result()
            tlc.need_ok(res)
            rep.add_tlc(res)
            if res.violated:
                rep.violation("model:" + res.violated, {"tlc": res.trace[:6000], "cfg": res.label},
                              "the HOW model of repopulation violates the WHAT spec")
        behs = []
        for f in dumps:
            res, b = f.result()
            rep.add_tlc(res)
            behs += b
    rep.notes["behaviours_enumerated_by_tlc"] = len(behs)
    # stratified sample in quick: all failing + all multi-donor behaviours first, then random fill
    if tier == "quick":
        budget = 5000
        rng.shuffle(behs)
        key = lambda b: (b["pc"] == "failed", sum(1 for a, z in zip(b["sizes"], b["final"]) if z < a))
        strata = {}
        for b in behs:
            strata.setdefault(key(b), []).append(b)
        pick = []
        while len(pick) < budget and any(strata.values()):
            for k in list(strata):
                if strata[k] and len(pick) < budget:
                    pick.append(strata[k].pop())
        behs = pick
        seeds_per = 1
    else:
        seeds_per = 1          # every enumerated behaviour once (about 200 000 real calls); quick re-seeds differ by VERIF_SEED
    jobs = []
    for b in behs:
        for s in range(seeds_per):
            jobs.append(([int(x) for x in b["sizes"]], [int(x) for x in b["rank"]], b["m"],
                         rng.randrange(1 << 30)))
    # random larger cases (K<=5, sizes<=60, m<=20)
    nbig = 300 if tier == "quick" else 6000
    for _ in range(nbig):
        K = rng.randint(2, 5)
        m = rng.randint(1, 20)
        sizes = [rng.choice([0, 1, rng.randint(0, 3 * m + 2), rng.randint(0, 60)]) for _ in range(K)]
        rank = list(range(K))
        rng.shuffle(rank)
        jobs.append((sizes, rank, m, rng.randrange(1 << 30)))
    recs = common.pmap_chunked(build_and_run, jobs, chunk=256)
    # DRIFT (informational): implementation sizes vs the HOW model's terminal sizes
    drift = 0
    for b, r in zip([b for b in behs for _ in range(seeds_per)], recs):
        if not r["error"]:
            got = [r["after"].count(k) for k in range(r["K"])]
            if got != [int(x) for x in b["final"]]:
                drift += 1
        elif b["pc"] != "failed":
            drift += 1
    if drift:
        print(f"DRIFT: {drift} behaviours where the code's sizes differ from the HOW model (informational)")
    rep.notes["drift_vs_how_model"] = drift
    accepted, failures, results = tracecheck.validate("TraceRepopulate", recs, {"C08"})
    for r in results:
        rep.add_tlc(r)
    rep.cov["evaluations"] = len(recs)
    rep.cov["traces_validated_against_impl"] = len(accepted)
    for gi, fl in sorted(failures.items()):
        rep.violation(fl[0][1], {"record": recs[gi], "clauses": fl})
    # the repopulation phases of the scripted runs of the real loop (repeated application across consecutive
    # iterations; donor shortage must raise exactly when no cluster holds 2m points)
    from .. import drv_scripts
    drv_scripts.validate(rep, "C08", tier)
    dn = set()
    for r in recs:
        sb = tuple(r["before"].count(k) for k in range(r["K"]))
        if any(s < 2 for s in sb):
            dn.add((sb, tuple(r["rank"]), r["m"]))
        rep.regime("error" if r["error"] else ("noop" if r.get("same_object") else "repopulated"))
    rep.cov["distinct_nontrivial"] = len(dn)
    rep.cov["rule"] = ("every terminal behaviour TLC enumerates for the HOW model (all size vectors 0..MaxSize, all "
                       "spread rankings) is rebuilt as a real ModelState with shuffled point positions and run under "
                       "seeded `random`; plus random larger cases; non-trivial = distinct (sizes, ranking, m) with at "
                       "least one under-populated cluster")
    rep.cov["exhaustive"] = tier == "thorough"
    for r in recs[:2] + [x for x in recs if x["error"]][:1]:
        rep.sample(r)
    rep.assumptions += ["cluster spread realised as Frobenius norm of computed_covariance = c*I with distinct c",
                        "which members move (random.sample) is unconstrained by the specification"]
    return rep.finish()
