"""Shared scaffolding for the properties decided on the corpus of traced complete runs."""
import concurrent.futures as cf

from .. import common, corpus, tlc


# actions the models themselves prove unreachable (so a zero count is the expected outcome)
UNREACHABLE_BY_DESIGN = {"RepopulateImpl.PickPopLast",
                         "ParLoop.ReadAcc", "ParLoop.WriteAcc",
                         "ModelHeap.RawSetLabels", "ModelHeap.RawShallowCopy"}      # only in the deliberately broken variant


def model_checks(rep, jobs):
    """jobs: list of (module, cfgfile).  All must pass; a violated invariant is a violation of the
    design-level model (reported), anything else is a machinery failure.  TLC runs with -coverage and
    an action that is never taken in ANY config of its module is a machinery failure (anti-vacuity)."""
    if not jobs:
        return
    taken = {}
    with cf.ThreadPoolExecutor(max_workers=len(jobs)) as ex:
        futs = [ex.submit(tlc.run, m, c, workers=max(2, common.NCPU // len(jobs)), coverage=True, heap="6g", timeout=7200) for m, c in jobs]
        for f in futs:
            res = f.result()
            tlc.need_ok(res)
            rep.add_tlc(res)
            for key, (d, g) in res.coverage.items():
                taken[key] = max(taken.get(key, 0), g)
            if res.violated:
                rep.violation("model:" + res.violated, {"tlc": res.trace[:6000], "cfg": res.label},
                              "design-level model violates the property")
    never = sorted(k for k, g in taken.items() if g == 0 and k not in UNREACHABLE_BY_DESIGN
                   and not k.endswith(".Init"))
    rep.notes.setdefault("model_actions_covered", 0)
    rep.notes["model_actions_covered"] += sum(1 for g in taken.values() if g > 0)
    if never:
        raise common.MachineryError(f"model actions never taken (vacuous model run): {never}")


TICC_MODELS = {"quick": [("MC_TiccLoop", "MC_TiccLoop_small.cfg"), ("MC_TiccLoop", "MC_TiccLoop_limits.cfg"),
                         ("MC_TiccLoop", "MC_TiccLoop_nodonor.cfg")],
               "thorough": [("MC_TiccLoop", "MC_TiccLoop_small.cfg"), ("MC_TiccLoop", "MC_TiccLoop_limits.cfg"),
                            ("MC_TiccLoop", "MC_TiccLoop_nodonor.cfg"),
                            ("MC_TiccLoop", "MC_TiccLoop_m2.cfg"), ("MC_TiccLoop", "MC_TiccLoop_k3.cfg")]}


def proofs(rep, module):
    """TLAPS proofs (unbounded: every T, K, limit): all obligations must be proved."""
    n, ok, tail = tlc.tlaps(module)
    rep.notes[f"tlaps_{module}_obligations"] = n
    if not ok:
        if "status:failed" in tail or "obligations failed" in tail or "obligation failed" in tail:
            rep.violation("proof:" + module, {"tlapm": tail}, "an obligation of the unbounded safety proof is not proved")
        else:
            raise common.MachineryError(f"tlapm failed on {module}:\n{tail[-1500:]}")
    rep.cov["states_explored"] = rep.cov.get("states_explored", 0)
    return n


def scripted_extra(pid, need=None):
    """The spec -> code direction for the loop: label scripts from TiccLoop behaviours replayed into the real loop."""
    def extra(rep, trs, tier):
        from .. import drv_scripts
        drv_scripts.validate(rep, pid, tier, **({} if need is None else {"need": need}))
        if pid == "C09":
            proofs(rep, "LoopCoreProofs")
    return extra


def corpus_property(pid, tier, level, *, models=(), need=(), rule="", nontrivial=None, select=None,
                    assumptions=(), extra=None):
    rep = common.Report(pid, tier, level)
    model_checks(rep, list(models))
    trs = corpus.get(tier)
    done = corpus.completed(trs)
    rep.notes["runs_in_corpus"] = len(trs)
    rep.notes["runs_completed"] = len(done)
    rep.notes["runs_skipped_not_completed"] = len(trs) - len(done)
    sel = [t for t in done if (select is None or select(t))]
    corpus.validate_property(rep, pid, sel, need=need)
    if extra:
        extra(rep, trs, tier)
    nt = set()
    for t in sel:
        key = nontrivial(t) if nontrivial else (t["hdr"]["id"],)
        if key is not None:
            nt.add(key)
    rep.cov["distinct_nontrivial"] = len(nt)
    rep.cov["rule"] = rule
    for t in sel[:2]:
        rep.sample({"hdr": {k: v for k, v in t["hdr"].items() if k not in ("workerResults",)},
                    "events": [e["ev"] + (":" + e["name"] if e["ev"] == "phase" else "") for e in t["events"]]})
    rep.assumptions += list(assumptions) + [
        "BLAS/OpenMP threads pinned to 1 in every harness process",
        "multiprocessing start method fork",
        "runs that do not complete (mixture model leaves a cluster empty in round 0; eps-floor makes an MRF singular) "
        "are outside the quantifier and counted as skipped"]
    return rep.finish()
