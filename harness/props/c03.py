"""C03 - every MRF is a finite, symmetric, positive-definite precision matrix (run-level half here;
the solver-level sweep over 24 orders of magnitude is drv_admm, shared with C02)."""
import random

from .. import common, corpus, runs
from . import _common

LEVEL = "model_checking"


def scale_sweep(tier):
    rng = random.Random(common.seed() * 22695477 % (1 << 31) + 3)
    cfgs = []
    scales = [1e-6, 1e-4, 1e-2, 1.0, 1e2, 1e4, 1e6] if tier == "quick" else \
        [10.0 ** e for e in range(-6, 7)]
    for i, sc in enumerate(scales):
        c = runs.gen_config(rng, 6000 + i, tier)
        c.update(scale=sc, eps=0, K=2 + i % 2, limit=3, lam=0.11 if i % 2 else 0.5, lam_form="float",
                 beta=1.0, beta_form="float", fe="single" if i % 3 else "joint")
        if c["fe"] == "single":
            c["lens"] = c["lens"][:1]
        cfgs.append(c)
    # degenerate data: duplicated points, a constant sensor, fewer windows than dimensions
    for j, kind in enumerate(["duplicated", "constant_sensor", "few_points", "eps_floor"]):
        c = runs.gen_config(rng, 6100 + j, tier)
        c.update(scale=1.0, eps=0 if kind != "eps_floor" else 0.05, K=2, limit=3, fe="single", lam=0.11,
                 lam_form="float", degenerate=kind, N=3, W=3 if kind != "few_points" else 5)
        c["lens"] = [c["lens"][0]] if kind != "few_points" else [26]
        cfgs.append(c)
    # the recorded finding F8 (one-window cluster under the unbiased estimator): keep its witness in every tier
    cfgs.append({"id": 6237, "fe": "single", "N": 1, "W": 1, "K": 4, "limit": 10, "m": 1, "biased": False, "eps": 0,
                 "beta": 5.0, "lam": 1.0, "n_regimes": 2, "scale": 1000.0, "lens": [281], "P": 2, "mp": False,
                 "data_seed": 811919670, "rng_seed": 396671437, "lam_form": "float", "readonly": True,
                 "fortran": True, "beta_form": "vector"})
    return runs.run_many(cfgs)


def run(tier):
    rep = common.Report("C03", tier, LEVEL)
    sweep = corpus.cached(f"scales_{tier}_{common.seed()}", lambda: scale_sweep(tier))
    for t in sweep:
        if "driver_error" in t:
            raise common.MachineryError(t["driver_error"])
    trs = corpus.get(tier)
    allt = corpus.completed(trs) + corpus.completed(sweep)
    for t in sweep:
        rep.regime("sweep_completed" if t["events"][-1]["ev"] == "return" else
                   "sweep_raised:" + t["events"][-1].get("type", "?"))
        rep.regime("scale_%g" % t["hdr"]["scale"])
    corpus.validate_property(rep, "C03", allt, need=("eps_floor", "scaled_data", "empty_final_cluster"))
    from .. import drv_admm
    drv_admm.solver_sweep(rep, tier, {"C03"})
    from . import _metrics
    _metrics.floor_family(rep, tier, {"C03"})          # exact floor semantics on integer matrices
    _metrics.ll_family(rep, tier, {"C03"})             # SPD fields with log det in +-3000 (NW to 200): finite likelihoods
    t0 = allt[0]
    rep.sample({"hdr": {k: v for k, v in t0["hdr"].items() if k != "workerResults"},
                "optimize_events": [{"round": e["round"], "o2": e["o2"], "o8": e["o8"]} for e in t0["events"]
                                    if e["ev"] == "phase" and e["name"] == "optimize"]})
    rep.cov["distinct_nontrivial"] = len({t["hdr"]["id"] for t in allt}) + rep.notes.get("solver_calls", 0)
    rep.cov["rule"] = ("every optimise phase and the return of every completed run (corpus + a sweep of data scales 1e-6..1e6, i.e. "
                       "variances 1e-12..1e12) must carry the O2 observation (exactly symmetric, finite, Cholesky succeeds, finite "
                       "log-determinant field) for every cluster and finite result fields; the eps-floor observation O8 compares the stored "
                       "MRF bitwise with floor(reinflate(theta)); plus the optimiser entry point over covariances spanning 24 orders of "
                       "magnitude and every rank; non-trivial = distinct runs + solver calls")
    return rep.finish()
