"""C04 - one label per input row; unlabeled margin is exactly W-1 points."""
from . import _common, _metrics

LEVEL = "model_checking"


def run(tier):
    return _common.corpus_property(
        "C04", tier, LEVEL, models=(),
        need=('odd_W','multi_series','series_of_exactly_W_rows','W1','equal_length_series_with_several_labels'),
        rule="""every completed run of both front ends: per-series label lists, margins, K, W, MRF shapes as integers checked by TLC against StackOps (Front/Back/Strip); non-trivial = distinct (W parity, number of series, N) combinations with W>1""",
        extra=lambda rep, trs, tier: _metrics.big_family(rep, tier, {"C04"}),
        nontrivial=lambda t: (t['hdr']['W']%2, len(t['hdr']['lens']), t['hdr']['N'], t['hdr']['W']) if t['hdr']['W']>1 else None)
