"""C15 - Numba acceleration is semantically transparent."""
import concurrent.futures as cf
import hashlib
import random

from .. import common, modes, runs, tracecheck, drv_metrics
from . import _common, _metrics, c01

LEVEL = "model_checking"
THREADS = [1, 2, 4, 8, 16]


def run(tier):
    rep = common.Report("C15", tier, LEVEL)
    _common.model_checks(rep, [("ParLoop", "ParLoop_a.cfg"), ("ParLoop", "ParLoop_b.cfg")])
    rng = random.Random(common.seed() * 31337 + 15)
    # ---- inputs: labelling-kernel cases, exact-family likelihood cases, complete runs
    assign_cases = c01.gen_cases(rng, 120 if tier == "quick" else 1500)
    sizes = [1, 3, 12, 40, 90] if tier == "quick" else [1, 2, 3, 6, 12, 30, 60, 120, 200]
    ll_cases = drv_metrics.ll_cases(rng, 15 if tier == "quick" else 120, sizes)
    run_cfgs = []
    for i in range(3 if tier == "quick" else 10):
        c = runs.gen_config(rng, 7000 + i, tier)
        c.update(eps=0, scale=1.0, limit=4, P=1, mp=False, readonly=False)
        run_cfgs.append({"fn": "fullrun", "cfg": c})
    # tables whose values are NOT exactly representable (decimal ties such as 0.1 + 0.2 vs 0.3) and tables with a
    # NaN column (the library produces those itself for an indefinite MRF): compared across modes only
    raw_cases = []
    for i in range(20 if tier == "quick" else 200):
        T, K = rng.randint(5, 60), rng.randint(2, 5)
        step = rng.choice(["0.1", "0.3", "0.7"])
        cost = [[repr(round(rng.randint(0, 6) * float(step), 10)) for _ in range(K)] for _ in range(T)]
        if i % 4 == 3:
            col = rng.randrange(K)
            for t in range(rng.randrange(T), T):
                cost[t][col] = "nan"
        beta = step if i % 3 else [repr(round(rng.randint(0, 3) * float(step), 10)) for _ in range(T)]
        raw_cases.append({"fn": "assign_raw", "cost": cost, "beta": beta})
    batch = assign_cases + ll_cases + run_cfgs + raw_cases
    variants = [("nojit", None), ("nonumba", None)] + [("jit", t) for t in THREADS]
    with cf.ThreadPoolExecutor(max_workers=len(variants)) as ex:
        outs = list(ex.map(lambda v: modes.run_cases(batch, v[0], threads=v[1], timeout=3000), variants))
    na, nl = len(assign_cases), len(ll_cases)
    # ---- (1) every mode agrees with the specification on its own (hence with each other)
    lab_recs, ll_recs, meta = [], [], []
    for (mode, thr), res in zip(variants, outs):
        for ci, (c, r) in enumerate(zip(assign_cases, res[:na])):
            if "error" in r:
                rep.violation("kernel_raised_in_mode", {"mode": mode, "threads": thr, "case": c, "result": r},
                              f"mode={mode}")
                continue
            lab_recs.append(c01.to_record(c, r))
            meta.append((mode, thr, ci))
        for c, r in zip(ll_cases, res[na:na + nl]):
            if "error" in r:
                rep.violation("likelihood_kernel_raised_in_mode", {"mode": mode, "threads": thr, "n": c["n"], "result": r},
                              f"mode={mode}")
                continue
            for rec in drv_metrics.ll_records(c, r):
                rec["mode"], rec["threads"] = mode, thr or 0
                ll_recs.append(rec)
        rep.regime(f"mode:{mode}" + (f":threads{thr}" if thr else ""))
    acc, fail, results = tracecheck.validate("TraceLabelling", lab_recs, {"C01"})
    for r in results:
        rep.add_tlc(r)
    for gi, fl in sorted(fail.items()):
        mode, thr, ci = meta[gi]
        rep.violation("labelling_kernel_differs_from_specification_in_mode:" + fl[0][1],
                      {"mode": mode, "threads": thr, "case": assign_cases[ci], "record": lab_recs[gi], "clauses": fl},
                      f"mode={mode} threads={thr}")
    rep.cov["evaluations"] += len(lab_recs)
    rep.cov["traces_validated_against_impl"] += len(acc)
    recs, acc2, fail2 = _metrics.validate(rep, ll_recs, {"C05"}, "ll_modes")
    # ---- (2) identical labels/cost across modes, identical table across thread counts, identical
    #          labels of complete runs across modes: TLC's memo table
    memo = []
    for ci, c in enumerate(assign_cases):
        evs = []
        for (mode, thr), res in zip(variants, outs):
            r = res[ci]
            done = "error" not in r
            d = hashlib.sha256(repr((r.get("labels"), r.get("reported"))).encode()).hexdigest()[:16] if done else "raised"
            evs.append({"key": f"assign{ci}", "dig": d, "completed": done, "mode": mode, "threads": thr or 0})
        memo.append({"pid": "C15", "clause": "labelling_kernel_same_labels_and_cost_in_every_mode", "events": evs})
    for li, c in enumerate(ll_cases):
        evs = []
        for (mode, thr), res in zip(variants, outs):
            if mode != "jit":
                continue
            r = res[na + li]
            done = "error" not in r
            evs.append({"key": f"ll{li}", "dig": r.get("tableDig", "raised"), "completed": done, "mode": mode,
                        "threads": thr})
        memo.append({"pid": "C15", "clause": "likelihood_table_independent_of_thread_count", "events": evs})
    for ri, c in enumerate(run_cfgs):
        evs = []
        for (mode, thr), res in zip(variants, outs):
            r = res[na + nl + ri]
            if "error" in r:
                raise common.MachineryError(f"full run driver failed in mode {mode}: {r}")
            d = hashlib.sha256(repr(r["labels"]).encode()).hexdigest()[:16] if r["completed"] else "raised:" + str(r["error_type"])
            evs.append({"key": f"run{ri}", "dig": d, "completed": True, "mode": mode, "threads": thr or 0,
                        "rounds": r["rounds"]})
        memo.append({"pid": "C15", "clause": "complete_runs_return_the_same_labels_in_every_mode", "events": evs})
    nr0 = na + nl + len(run_cfgs)
    for qi, c in enumerate(raw_cases):
        evs = []
        for (mode, thr), res in zip(variants, outs):
            r = res[nr0 + qi]
            done = "error" not in r
            d = hashlib.sha256(repr((r.get("labels"), r.get("reported"))).encode()).hexdigest()[:16] if done else "raised"
            evs.append({"key": f"raw{qi}", "dig": d, "completed": done, "mode": mode, "threads": thr or 0})
        memo.append({"pid": "C15", "clause": "labelling_kernel_same_labels_and_cost_in_every_mode_on_inexact_or_nan_tables",
                     "events": evs})
    acc3, fail3, res3 = tracecheck.validate("TraceMemo", memo, {"C15"})
    for r in res3:
        rep.add_tlc(r)
    for gi, fl in sorted(fail3.items()):
        rep.violation(memo[gi]["clause"], {"events": memo[gi]["events"], "clauses": fl})
    rep.cov["evaluations"] += sum(len(m["events"]) for m in memo)
    rep.cov["traces_validated_against_impl"] += len(acc3)
    rep.cov["distinct_nontrivial"] = len(assign_cases) + len(ll_cases) + len(run_cfgs)
    rep.cov["rule"] = ("the same batch (labelling-kernel tables, exact-family likelihood models up to NW=200, complete runs) executed in "
                       "separate processes per execution mode {JIT disabled, Numba not importable, JIT with 1/2/4/8/16 threads}; every record "
                       "validated against the specification on its own and TLC's memo table requires equal labels/cost across modes, a "
                       "bit-identical likelihood table across thread counts and equal labels of complete runs; non-trivial = distinct inputs")
    rep.sample(memo[0]["events"][:3])
    rep.assumptions += ["Numba's thread interleavings cannot be observed, only their results (ParLoop.tla gives the design argument)",
                        "Numba is made 'not importable' by sys.modules['numba'] = None before importing the package"]
    return rep.finish()
