"""C05 - reported log-likelihoods are exact Gaussian log-densities (end-to-end half)."""
from . import _common, _metrics

LEVEL = "model_checking"


def run(tier):
    return _common.corpus_property(
        "C05", tier, LEVEL, models=(),
        need=('empty_final_cluster','scaled_data'),
        rule="""every relabel event (likelihood table) and return event (per-point values) of every completed run: O7 observation required by the specification at Score and Return""",
        extra=lambda rep, trs, tier: (_metrics.ll_family(rep, tier, {"C05"}), _metrics.big_family(rep, tier, {"C05"})),
        nontrivial=lambda t: (t['hdr']['id'],))
