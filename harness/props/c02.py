"""C02 - cluster MRF is the block-Toeplitz graphical-lasso optimum."""
import multiprocessing as mp
import random

from .. import common, tracecheck, drv_admm
from . import _common

LEVEL = "model_checking"


def run(tier):
    rep = common.Report("C02", tier, LEVEL)
    _common.model_checks(rep, [("ZUpdate", "ZUpdate_matrix.cfg"), ("ZUpdate", "ZUpdate_forms.cfg"),
                               ("Admm", "Admm_a.cfg"), ("Admm", "Admm_b.cfg"), ("Admm", "Admm_c.cfg"),
                               ("Admm", "Admm_d.cfg"), ("IndexMaps", "IndexMaps_classes.cfg")] +
                         ([("ZUpdate", "ZUpdate_big.cfg")] if tier == "thorough" else []))
    drv_admm.zstep_replay(rep, tier, {"C02"})          # exact consensus step, judged by TLC on integers
    ok, acc, fail = drv_admm.solver_sweep(rep, tier, {"C02"})
    for n in ("solver_converged", "kkt_ok", "lam_matrix_sym", "lam_matrix_const", "adaptive_rho", "unconditional_clause",
              "cov_rank_deficient", "solver_budget_exhausted"):
        if n not in rep.regimes:
            raise common.MachineryError(f"C02: regime {n} not entered")
    conv = rep.regimes.get("solver_converged", 0)
    if rep.regimes.get("kkt_inc", 0) > 0.1 * conv:
        raise common.MachineryError("C02: the KKT observation is inconclusive on more than 10% of converged solves")
    rep.cov["distinct_nontrivial"] = len({(t["job"]["N"], t["job"]["W"], t["job"]["kind"], t["job"]["lam"],
                                           t["job"]["lam_form"], t["job"]["rho"], t["job"]["callback"]) for t in ok
                                          if t["events"][-1]["converged"]})
    rep.cov["rule"] = ("public entry point over (N,W) up to NW=60, covariances full rank / rank deficient / diagonal / strongly "
                       "correlated / degenerate / eigenvalues in [0.25,4], lambda in {0, 1e-3..5} as scalar, constant matrix and "
                       "non-constant symmetric matrix, rho in [0.1,10], with and without a residual-balancing callback, budgets 0,1,2,5,1000; "
                       "every hook event validated against Admm; non-trivial = distinct converged configurations (KKT certificate evaluated)")
    ex = ok[0]
    rep.sample({"job": ex["job"], "events": [e["ev"] for e in ex["events"]][:12] + ["..."], "exit": ex["events"][-1]})
    rep.assumptions += ["optimality is decided by the KKT certificate O3 (Appendix C) from the returned Theta and S only",
                        "convergence within budget is sampled, not proved"]
    return rep.finish()
