"""C19 - caller-owned data is never modified."""
import random

from .. import common, corpus, faultruns, runs, tracecheck, modes
from . import _common, c01, c10

LEVEL = "model_checking"


def nan_cov_job(job):
    """The optimiser entry point on a covariance with UNDEFINED entries (a one-point cluster under the unbiased estimator,
    a sensor without readings): the call may fail or return, the caller's matrix must be what it was - and a read-only
    matrix must not be refused for being read-only."""
    common.use_repo()
    import numpy as np
    from fast_ticc import admm
    from .. import proj
    W, N, how, layout, readonly, seed = job
    rng = np.random.default_rng(seed)
    nw = N * W
    S = np.atleast_2d(np.cov(rng.normal(size=(nw + 3, nw)).T))
    if how == "all":
        S[:] = np.nan
    else:
        k = int(rng.integers(nw))
        S[k, :] = np.nan
        S[:, k] = np.nan
    if layout == "F":
        S = np.asfortranarray(S)
    if readonly:
        S.setflags(write=False)
    before = S.tobytes()
    outcome = "returned"
    try:
        with np.errstate(all="ignore"):
            admm.admm_optimize_theta(S, 0.11, W, N, max_iterations=20)
    except Exception as ex:                                  # pylint: disable=broad-except
        outcome = type(ex).__name__ + ": " + str(ex)[:80]
    after = "refused-because-read-only" if (readonly and "read-only" in outcome) else proj.dig(np.frombuffer(S.tobytes(), dtype=np.uint8))
    return {"pid": "C19", "clause": "covariance_with_undefined_entries_unchanged_whether_the_call_returns_or_raises",
            "events": [{"key": "k", "dig": proj.dig(np.frombuffer(before, dtype=np.uint8)), "completed": True, "form": "before"},
                       {"key": "k", "dig": after, "completed": True, "form": "after: " + outcome}],
            "job": list(job)}


def run(tier):
    rep = common.Report("C19", tier, LEVEL)
    _common.model_checks(rep, list(_common.TICC_MODELS[tier]))
    rng = random.Random(common.seed() * 16807 + 19)
    # (1) the labelling step: cost tables and vector switching costs, writable and read-only, C and F order
    cases = c01.gen_cases(rng, 150 if tier == "quick" else 2000)
    for c in cases:
        c["readonly"] = rng.random() < 0.5
    results = modes.run_cases(cases, "jit")
    recs = []
    for c, r in zip(cases, results):
        if "error" in r:
            rep.violation("labelling_step_failed_on_valid_input", {"case": c, "result": r},
                          "read-only input rejected" if c["readonly"] else "")
            continue
        recs.append(c01.to_record(c, r))
        rep.regime("labelling_readonly" if c["readonly"] else "labelling_writable")
    acc, fail, res = tracecheck.validate("TraceLabelling", recs, {"C19"})
    for r in res:
        rep.add_tlc(r)
    for gi, fl in sorted(fail.items()):
        rep.violation(fl[0][1], {"record": recs[gi], "clauses": fl})
    n_eval = len(recs)
    n_acc = len(acc)
    # (2) stacking helpers and index helpers
    traces, acc2, fail2 = c10.run_pipeline_traces(rep, tier, {"C19"}, 19)
    n_eval += rep.cov["evaluations"]
    n_acc += rep.cov["traces_validated_against_impl"]
    # (3) both front ends on every completed run (series, matrix lambda, vector beta; read-only, F order)
    rep.cov["evaluations"], rep.cov["traces_validated_against_impl"] = 0, 0
    trs = corpus.get(tier)
    corpus.validate_property(rep, "C19", corpus.completed(trs))
    for t in trs:
        c = t["hdr"]["cfg"]
        if c.get("readonly"):
            rep.regime("front_end_readonly_inputs")
            if t["events"][-1]["ev"] == "raise" and "read-only" in t["events"][-1].get("message", ""):
                rep.violation("read_only_input_rejected", {"cfg": c, "raise": t["events"][-1]})
        if c.get("fortran"):
            rep.regime("front_end_fortran_order")
        if c.get("lam_form", "float").startswith("matrix"):
            rep.regime("matrix_lambda")
    # (3b) the optimiser entry point: covariance / matrix lambda, writable and read-only (30 %), incl. covariances
    #      that are symmetric only up to round-off (a tempting target for an in-place symmetrisation)
    from .. import drv_admm
    drv_admm.solver_sweep(rep, tier, {"C19"}, extra_kinds=("roundoff_asymmetric",))
    # (3c) ... and covariances with undefined (NaN) entries: the call usually fails - the caller's matrix must survive it
    njobs = [(W, N, how, layout, ro, rng.randrange(1 << 30)) for (W, N) in [(1, 1), (2, 2), (3, 2)] for how in ("all", "rowcol")
             for layout in ("C", "F") for ro in (False, True)][: (24 if tier == "quick" else 24)]
    nrecs = common.pmap_chunked(nan_cov_job, njobs, chunk=4)
    accn, failn, resn = tracecheck.validate("TraceMemo", nrecs, {"C19"})
    for r in resn:
        rep.add_tlc(r)
    for gi, fl in sorted(failn.items()):
        rep.violation(fl[0][1], {"job": nrecs[gi]["job"], "events": nrecs[gi]["events"], "clauses": fl})
    n_eval += 2 * len(nrecs)
    n_acc += len(accn)
    # (4) failing calls: the fault corpus of C20
    fc = corpus.cached(f"faults_{tier}_{common.seed()}", lambda: faultruns.build_fault_corpus(tier))
    ft = [e["F"] for e in fc["experiments"] if "F" in e and e["F"]["events"][-1]["ev"] == "raise"]
    ft += [t for t in fc["extra"] if t["events"][-1]["ev"] == "raise"
           and t["hdr"]["fault"]["kind"] in ("wrong_front_end", "invalid_argument")]
    views = [runs.tlc_view(t) for t in ft]
    acc3, fail3, res3 = tracecheck.validate("TraceTiccLoop", views, {"C19"}, spec="TraceSpec",
                                            extra_constants={"KnownDeviations": "{}", "FixedCode": "TRUE", "Configs": "{}"})
    for r in res3:
        rep.add_tlc(r)
    for gi, fl in sorted(fail3.items()):
        rep.violation(fl[0][1], {"cfg": ft[gi]["hdr"]["cfg"], "fault": ft[gi]["hdr"]["fault"], "clauses": fl})
    rep.regime("failing_calls", len(ft))
    rep.cov["evaluations"] += n_eval + len(ft)
    rep.cov["traces_validated_against_impl"] += n_acc + len(acc3)
    for n in ("front_end_readonly_inputs", "matrix_lambda", "vector_beta", "failing_calls", "labelling_readonly"):
        if n not in rep.regimes:
            raise common.MachineryError(f"C19: regime {n} not entered")
    rep.cov["distinct_nontrivial"] = len(recs) + len(traces) + len(ft)
    rep.cov["rule"] = ("byte-wise digests of every caller-owned argument before and after: labelling kernel (tables, vector beta; "
                       "C/F order; read-only), stacking/compression helpers, both front ends on every corpus run (series, matrix lambda, "
                       "vector beta; read-only and Fortran-ordered variants), optimiser entry point (C02 driver) and every failing call "
                       "of the fault corpus; TLC requires equality at the return / raise event; non-trivial = distinct calls")
    rep.sample({"kind": "labelling", "record": recs[0]})
    return rep.finish()
