"""C06 - result fields are mutually consistent (cost and likelihood accounting)."""
from . import _common, _metrics

LEVEL = "model_checking"


def run(tier):
    return _common.corpus_property(
        "C06", tier, LEVEL, models=(),
        need=('empty_final_cluster','vector_beta','limit_reached','converged','multi_series','label_switch_under_unequal_per_pair_beta'),
        rule="""every completed run: per-point values, sums, means, medians, cost quantised into two-limb integers; TLC recomputes every identity; non-trivial = distinct runs with at least one label switch or an empty final cluster""",
        extra=lambda rep, trs, tier: _metrics.big_family(rep, tier, {"C06"}),
        nontrivial=lambda t: (t['hdr']['id'],))
