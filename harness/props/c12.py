"""C12 - each cluster is fitted to exactly its own windows, with the requested estimator."""
from . import _common

LEVEL = "model_checking"


def run(tier):
    return _common.corpus_property(
        "C12", tier, LEVEL, models=_common.TICC_MODELS[tier],
        need=('repopulated','biased_covariance','rounds_2plus','level_far_above_spread'),
        rule="""every statistics / submit event of every completed run: TLC derives membership from the logged labels, requires the O1 observation for that membership and estimator, and equality of the covariance digest handed to the optimiser with this round's digest for the same cluster; non-trivial = distinct (run, round) pairs""",
        extra=_common.scripted_extra("C12"),
        nontrivial=lambda t: (t['hdr']['id'],))
