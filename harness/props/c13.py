"""C13 - model state: labels and cluster membership always describe one partition."""
import multiprocessing as mp
import random

from .. import common, tracecheck, drv_modelheap
from . import _common

LEVEL = "model_checking"


def heap_traces(rep, tier):
    rng = random.Random(common.seed() * 65537 + 13)
    n = 160 if tier == "quick" else 2400
    jobs = []
    for i in range(n):
        NP, K = rng.choice([(4, 2), (6, 2), (6, 3), (8, 3)])
        raw = i % 2 == 1
        jobs.append((NP, K, rng.randint(3, 8), raw, rng.randrange(1 << 30)))
    traces = common.pmap_chunked(drv_modelheap.sequence, jobs, chunk=4)
    groups = {}
    for t in traces:
        if t["events"]:
            groups.setdefault((t["NP"], t["K"]), []).append(t)
    total_acc = 0
    for (NP, K), trs in sorted(groups.items()):
        acc, fail, res = tracecheck.validate(
            "TraceModelHeap", trs, {"C13"}, spec="TraceSpec", shards=max(1, common.NCPU // len(groups)),
            extra_constants={"NP": NP, "K": K, "MaxOps": 1000, "Raw": "TRUE"})
        for r in res:
            rep.add_tlc(r)
        total_acc += len(acc)
        for gi, fl in sorted(fail.items()):
            t = trs[gi]
            rep.violation(fl[0][1], {"init": t["init"], "NP": NP, "K": K, "clauses": fl,
                                     "ops": [{k: v for k, v in e.items() if k != "proj"} for e in t["events"]]})
    rep.cov["evaluations"] += sum(len(t["events"]) for t in traces)
    rep.cov["traces_validated_against_impl"] += total_acc
    for t in traces:
        for e in t["events"]:
            rep.regime("op:" + e["op"])
    rep.sample({"init": traces[0]["init"], "ops": [{k: v for k, v in e.items() if k not in ("proj",)}
                                                    for e in traces[0]["events"]]})
    return traces


def run(tier):
    rep = common.Report("C13", tier, LEVEL)
    heap_loop = [("TiccHeap", "TiccHeap_q.cfg")] if tier == "quick" else \
        [("TiccHeap", "TiccHeap_a.cfg"), ("TiccHeap", "TiccHeap_alias.cfg")]
    _common.model_checks(rep, [("ModelHeap", "ModelHeap_a.cfg"), ("ModelHeap", "ModelHeap_b.cfg")] + heap_loop +
                         list(_common.TICC_MODELS[tier]))
    traces = heap_traces(rep, tier)
    # (B) every phase boundary of every traced complete run
    from .. import corpus
    trs = corpus.get(tier)
    done = corpus.completed(trs)
    corpus.validate_property(rep, "C13", done, need=("repopulated", "rounds_2plus"))
    from .. import drv_scripts
    drv_scripts.validate(rep, "C13", tier)          # (C) every phase boundary of every scripted run
    # (D) the runs of the scheduling experiments (several workers, seeded delays that permute the completion order of the
    #     optimisation tasks): cluster k of every state must still be the cluster of label k
    from . import c14
    sched = corpus.cached(f"sched_{tier}_{common.seed()}", lambda: c14.build(tier))
    delayed = [t for hist in sched["histories"] for t in hist
               if "driver_error" not in t and t["events"] and t["events"][-1]["ev"] == "return"
               and t["hdr"]["cfg"].get("delay_seed") is not None]
    if delayed:
        corpus.validate_property(rep, "C13", delayed)
        rep.regime("delayed_multi_worker_runs", len(delayed))
    rep.cov["distinct_nontrivial"] = len({(tuple(t["init"]), tuple(e["op"] for e in t["events"])) for t in traces
                                          if len(t["events"]) >= 3})
    rep.cov["rule"] = ("seeded random sequences (3..8 operations) of assign-labels / shallow copy / deep copy / the four real "
                       "phase functions / in-place mutation probes on real ModelState objects, half of them phases-only; after "
                       "each operation the labels, membership and statistics of EVERY live state must equal ModelHeap's "
                       "prediction; plus every phase boundary of every traced complete run; non-trivial = distinct "
                       "(initial labelling, operation sequence) with at least 3 operations")
    rep.assumptions += ["'fitted statistics' = mean, empirical covariance, MRF, computed covariance; the scoring cache "
                        "(inverse_covariance, log_determinant) is refreshed in place by design and is checked for consistency "
                        "with the MRF instead (DESIGN 6/C13)"]
    return rep.finish()
