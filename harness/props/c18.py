"""C18 - equivalent parameter forms give identical results."""
import concurrent.futures as cf
import multiprocessing as mp
import random

import numpy as np

from .. import common, corpus, runs, tracecheck, proj
from . import _common

LEVEL = "model_checking"

LAM_FORMS = ["float", "int", "np.float64", "np.float32", "np.int64", "np.float16", "matrix_const"]
BETA_FORMS = ["float", "int", "np.float64", "np.float32", "np.int64", "np.int32", "np.float16", "vector"]
EPS_FORMS = ["float", "np.float64", "np.float32", "np.float16"]


def entry_point_job(job):
    """Optimiser entry point with lambda in every equivalent form: outputs compared bitwise."""
    common.use_repo()
    from fast_ticc import admm
    N, W, lam, seed = job
    rng = np.random.default_rng(seed)
    nw = N * W
    A = rng.normal(size=(nw + 3, nw))
    S = np.cov(A.T) if nw > 1 else np.atleast_2d(np.cov(A.T))
    out = []
    for form in LAM_FORMS:
        if form == "int" or form == "np.int64":
            if lam != int(lam):
                continue
        if form == "matrix_const":
            lv = np.zeros((nw, nw)) + lam
        elif form == "int":
            lv = int(lam)
        elif form == "float":
            lv = float(lam)
        else:
            lv = getattr(np, form.split(".")[1])(lam)
        try:
            th = admm.admm_optimize_theta(S, lv, W, N).theta
            out.append({"key": "k", "dig": proj.dig(th), "completed": True, "form": form})
        except Exception as ex:                          # pylint: disable=broad-except
            out.append({"key": "k", "dig": "raised:" + type(ex).__name__, "completed": False, "form": form,
                        "message": str(ex)[:160]})
    # a second value through the SAME matrix object, refilled in place, and through a fresh matrix at (possibly) the same
    # address: a memo keyed on the identity of the array would serve the first value's sums
    lam2 = lam / 2.0 if lam else 0.25
    out2 = []
    try:
        out2.append({"key": "k2", "dig": proj.dig(admm.admm_optimize_theta(S, float(lam2), W, N).theta), "completed": True,
                     "form": "float"})
        buf = np.zeros((nw, nw)) + lam
        admm.admm_optimize_theta(S, buf, W, N)
        buf[:] = lam2
        out2.append({"key": "k2", "dig": proj.dig(admm.admm_optimize_theta(S, buf, W, N).theta), "completed": True,
                     "form": "matrix_const_refilled_in_place"})
        del buf
        out2.append({"key": "k2", "dig": proj.dig(admm.admm_optimize_theta(S, np.zeros((nw, nw)) + lam2, W, N).theta),
                     "completed": True, "form": "matrix_const_fresh_after_free"})
    except Exception as ex:                              # pylint: disable=broad-except
        out2.append({"key": "k2", "dig": "raised:" + type(ex).__name__, "completed": False, "form": "matrix_history",
                     "message": str(ex)[:160]})
    return [{"pid": "C18", "clause": "optimiser_output_identical_across_lambda_forms", "events": out,
             "N": N, "W": W, "lam": lam},
            {"pid": "C18", "clause": "optimiser_output_identical_across_lambda_forms_after_other_values", "events": out2,
             "N": N, "W": W, "lam": lam2}]


def floor_forms_job(job):
    """The covariance floor itself (graphical_lasso._zero_small_elements) with the floor in every equivalent form and
    over many magnitudes - a floor whose SQUARE or negation leaves the range of its own narrow dtype included."""
    common.use_repo()
    from fast_ticc import graphical_lasso
    n, e2, seed = job
    rng = np.random.default_rng(seed)
    eps = 2.0 ** e2
    # entries spread around the floor: signs, magnitudes from eps/64 to 64*eps, exact zeros, entries equal to +-eps
    mag = eps * 2.0 ** rng.integers(-6, 7, size=(n, n))
    M = mag * rng.choice([-1.0, 1.0], size=(n, n)) * rng.choice([0.0, 1.0, 1.0, 1.0, 1.5], size=(n, n))
    M = (M + M.T) / 2
    forms = [("float", float(eps)), ("np.float64", np.float64(eps)), ("np.longdouble", np.longdouble(eps))]
    if float(np.float32(eps)) == eps:
        forms.append(("np.float32", np.float32(eps)))
    if float(np.float16(eps)) == eps:
        forms.append(("np.float16", np.float16(eps)))
    if eps == int(eps):
        forms.append(("int", int(eps)))
        for nm in ("int8", "int16", "int32", "int64", "uint8"):
            if int(eps) <= np.iinfo(getattr(np, nm)).max:
                forms.append(("np." + nm, getattr(np, nm)(int(eps))))
    out = []
    for name, val in forms:
        try:
            with np.errstate(all="ignore"):
                r = graphical_lasso._zero_small_elements(np.copy(M), val)      # pylint: disable=protected-access
            out.append({"key": "k", "dig": proj.dig(np.asarray(r, dtype=np.float64)), "completed": True, "form": "eps:" + name})
        except Exception as ex:                          # pylint: disable=broad-except
            out.append({"key": "k", "dig": "raised:" + type(ex).__name__, "completed": False, "form": "eps:" + name,
                        "message": str(ex)[:160]})
    return {"pid": "C18", "clause": "floor_identical_across_forms_of_the_same_value", "events": out, "n": n, "eps": eps}


def beta_forms_job(job):
    """The labelling step with the switching cost in every equivalent form - scalars of every real type, the one-element
    array, and per-pair vectors filled with the value - on tables with many tied row minima, a zero cost included."""
    common.use_repo()
    import hashlib
    from fast_ticc import cluster_label_assignment as cla
    T, K, b2, seed = job                      # cost = b2 / 2 (so 0, 0.5, 1, ... are all exact in every float type)
    rng = np.random.default_rng(seed)
    table = rng.integers(0, 3, size=(T, K)).astype(np.float64)
    if seed % 2:
        table += rng.integers(0, 2, size=(T, K)) * 0.5
    v = b2 / 2.0
    forms = [("float", float(v)), ("np.float64", np.float64(v)), ("np.float32", np.float32(v)), ("np.float16", np.float16(v)),
             ("np.longdouble", np.longdouble(v)), ("array1", np.array([v])), ("vector", np.full(T, v)),
             ("vector_f32", np.full(T, v, dtype=np.float32)), ("vector_be", np.full(T, v).astype(">f8"))]
    if v == int(v):
        forms += [("int", int(v)), ("np.int64", np.int64(v)), ("np.int8", np.int8(v)), ("np.uint8", np.uint8(v)),
                  ("vector_i64", np.full(T, int(v), dtype=np.int64))]
    out = []
    for name, val in forms:
        try:
            labels, cost = cla.assign_point_cluster_labels(table.copy(), val)
            d = hashlib.sha256(repr(([int(x) for x in labels], float(cost).hex())).encode()).hexdigest()[:16]
            out.append({"key": "k", "dig": d, "completed": True, "form": "beta:" + name})
        except Exception as ex:                          # pylint: disable=broad-except
            out.append({"key": "k", "dig": "raised:" + type(ex).__name__, "completed": False, "form": "beta:" + name,
                        "message": str(ex)[:160]})
    return {"pid": "C18", "clause": "labelling_identical_across_forms_of_the_same_switching_cost", "events": out, "T": T, "K": K,
            "beta": v}


def build(tier):
    rng = random.Random(common.seed() * 69621 + 18)
    nbase = 2 if tier == "quick" else 8
    cfgs, groups = [], []
    for i in range(nbase):
        b = runs.gen_config(rng, 5000 + i, tier)
        # values exactly representable in every form: dyadic lambda, integer beta, dyadic epsilon
        b.update(lam=[1.0, 0.5, 0.125, 2.0][i % 4], beta=float([2, 5, 1, 20][i % 4]), eps=[2.0 ** -13, 2.0 ** -10, 0.0, 2.0 ** -13][i % 4],
                 scale=1.0, limit=3, K=3, fe="single" if i % 2 == 0 else "joint", N=2, W=2 + i % 2)
        b["lens"] = [60] if b["fe"] == "single" else [36, 30]
        g = []
        for lf in LAM_FORMS:
            if lf in ("int", "np.int64") and b["lam"] != int(b["lam"]):
                continue
            g.append(dict(b, lam_form=lf, beta_form="float", eps_form="float", id=f"{b['id']}/lam:{lf}"))
        for bf in BETA_FORMS:
            g.append(dict(b, lam_form="float", beta_form=bf, eps_form="float", id=f"{b['id']}/beta:{bf}"))
        for ef in EPS_FORMS:
            g.append(dict(b, lam_form="float", beta_form="float", eps_form=ef, id=f"{b['id']}/eps:{ef}"))
        groups.append((b["id"], len(cfgs), len(g)))
        cfgs += g
    trs = runs.run_many(cfgs)
    ep_jobs = [(N, W, lam, rng.randrange(1 << 30)) for (N, W) in [(1, 1), (2, 2), (3, 2), (2, 4)]
               for lam in (1.0, 0.5, 0.125, 0.0)][: (8 if tier == "quick" else 16)]
    ep = [g for pair in common.pmap(entry_point_job, ep_jobs) for g in pair]
    fl_jobs = [(rng.choice([2, 3, 5, 8]), e2, rng.randrange(1 << 30))
               for e2 in (-20, -14, -13, -12, -10, -4, -1, 0, 1, 2, 4, 6, 7, 8, 12)
               for _ in range(1 if tier == "quick" else 6)]
    ep += common.pmap(floor_forms_job, fl_jobs)
    bj = [(rng.choice([6, 9, 15, 40]), rng.choice([2, 3, 4]), b2, rng.randrange(1 << 30))
          for b2 in (0, 0, 1, 2, 3, 4, 10, 32) for _ in range(2 if tier == "quick" else 12)]
    ep += common.pmap(beta_forms_job, bj)
    return {"groups": groups, "traces": trs, "entry": ep}


def run(tier):
    rep = common.Report("C18", tier, LEVEL)
    _common.model_checks(rep, [("ZUpdate", "ZUpdate_forms.cfg")])
    from .. import drv_admm
    drv_admm.zstep_replay(rep, tier, {"C18"})          # scalar vs constant-matrix consensus step on exact data
    data = corpus.cached(f"forms_{tier}_{common.seed()}", lambda: build(tier))
    memo = []
    for (bid, start, n) in data["groups"]:
        evs = []
        for t in data["traces"][start:start + n]:
            if "driver_error" in t:
                raise common.MachineryError(t["driver_error"])
            last = t["events"][-1]
            done = last["ev"] == "return"
            form = str(t["hdr"]["id"]).split("/", 1)[1]
            evs.append({"key": str(bid), "dig": t["hdr"].get("resultDig") if done else "raised:" + last.get("type", "?"),
                        "completed": done, "form": form,
                        "message": "" if done else last.get("message", "")[:160]})
            rep.regime("form:" + form.split(":")[0] + ":" + form.split(":")[1])
        memo.append({"pid": "C18", "clause": "result_identical_across_equivalent_parameter_forms", "events": evs})
    memo += data["entry"]
    acc, fail, res = tracecheck.validate("TraceMemo", memo, {"C18"})
    for r in res:
        rep.add_tlc(r)
    for gi, fl in sorted(fail.items()):
        from .. import tlc
        idx = tlc.parse_tuple(fl[0][2])[2] - 1 if fl[0][2] else 0
        bad = memo[gi]["events"][idx]
        rep.violation(fl[0][1], {"reference": memo[gi]["events"][0], "differs": bad, "clauses": fl,
                                 "all_forms": [(e["form"], e["dig"], e["completed"]) for e in memo[gi]["events"]]},
                      f"form {bad['form']}: {bad.get('message', '')[:100]}")
    rep.cov["evaluations"] += sum(len(m["events"]) for m in memo)
    rep.cov["traces_validated_against_impl"] += len(acc)
    rep.cov["distinct_nontrivial"] = len({(m["events"][0]["key"], e["form"]) for m in memo for e in m["events"]})
    rep.cov["rule"] = ("each base run executed once per equivalent form of lambda (python int/float, numpy float16/32/64, int64, "
                       "constant NWxNW matrix), beta (same scalar types, int32, constant vector) and epsilon; values dyadic/integer "
                       "so that every form holds exactly the same number; complete results compared bitwise by TLC's memo table; "
                       "the optimiser entry point likewise; non-trivial = distinct (base, form) pairs")
    rep.sample(memo[0]["events"][:3])
    rep.assumptions += ["bitwise equality is demanded only for values that every form represents exactly (DESIGN 5.1)"]
    return rep.finish()
