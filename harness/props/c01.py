"""C01 - label assignment returns a globally minimum-cost label sequence."""
import concurrent.futures as cf
import random

from .. import common, tlc, tracecheck, modes

LEVEL = "model_checking"
QUICK_CFGS = ["a", "b", "d", "e", "f"]
THOROUGH_CFGS = ["a", "b", "c", "d", "e", "f", "g", "h"]


def gen_cases(rng, n):
    """Integer (dyadic after scaling) cost tables: exact in float64, so TLC can redo the sums."""
    cases = []
    forms = ["vector", "vector", "vector", "float", "int", "np.float64", "np.float32", "np.int64",
             "np.int32", "np.uint8", "np.float16", "np.longdouble", "array1"]
    for idx in range(n):
        kind = idx % 10
        T = rng.choice([1, 2, 3, 4, 5, 6, 8, 12]) if kind < 6 else rng.randint(13, 60)
        if kind >= 8:
            T = rng.choice([4, 5, 6, 8, 10, 12, 20, 40])
        K = rng.choice([1, 2, 2, 3, 3, 4, 5])
        s = rng.choice([0, 0, 1, 3, 40, 70, -30])       # magnitudes from 2^-70 to 2^50: optimality does not depend on scale
        if kind in (0, 1):
            hi = rng.choice([1, 2, 3])                 # tiny value sets: many ties
            lo = 0
        elif kind == 2:
            lo, hi = -5, 5                             # negatives
        elif kind == 3:
            lo, hi = 0, 2 ** 20                        # huge spread
        elif kind == 4:
            lo, hi = -(2 ** 18), 2 ** 18
        else:
            lo, hi = 0, 40
        cost = [[rng.randint(lo, hi) for _ in range(K)] for _ in range(T)]
        if kind >= 8:
            # the regime the library lives in: a hidden piecewise-constant labelling, each point cheap in its own
            # cluster and dearer elsewhere, and a switching cost AT or ABOVE the spread of the whole table - one switch
            # never pays at a single point but does over a segment
            K = max(K, 2)
            s = 0                                   # unscaled: every beta form (integer types too) holds the value
            hi, lo = rng.choice([1, 1, 2, 3]), 0
            hidden, t = [], 0
            while t < T:
                seg = rng.randint(2, max(2, T // 2))
                hidden += [rng.randrange(K)] * seg
                t += seg
            hidden = hidden[:T]
            cost = [[0 if k == hidden[i] else rng.randint(1, hi) for k in range(K)] for i in range(T)]
        if kind == 3 and T > 1:                        # a few huge cells among small ones
            cost = [[(v if rng.random() < 0.2 else v % 7) for v in row] for row in cost]
        form = rng.choice(forms)
        extreme = s not in (0, 1, 3)
        if extreme and form in ("int", "np.int64", "np.int32", "np.uint8", "np.float16", "np.float32"):
            form = rng.choice(["float", "np.float64", "np.longdouble", "vector", "array1"])   # forms that hold 2^-70 .. 2^50
        bmax = max(1, min(hi - lo, 2 ** 12))
        if kind >= 8:
            spread = max(max(r) for r in cost) - min(min(r) for r in cost)
            b0 = spread + rng.choice([0, 0, 1, 2])
            beta = [b0 + rng.choice([0, 0, 1]) for _ in range(T)] if form == "vector" else b0
        elif form == "vector":
            beta = [rng.choice([0, 0, 1, rng.randint(0, bmax)]) for _ in range(T)]
        else:
            beta = rng.choice([0, 1, 2, rng.randint(0, bmax)])
            if form in ("int", "np.int64", "np.int32", "np.uint8"):
                beta = (beta % 200) * (2 ** s)         # integer forms cannot carry a fraction
            if form == "np.uint8":
                beta = (beta // (2 ** s) % 200) * (2 ** s)
            if form == "np.float16":
                beta = beta % 1024                        # 11 significant bits
        # dtype of the TABLE (the kernel must take any real table; it accumulates in float64) and of a per-pair vector:
        # only dtypes that hold every value of this case exactly
        small = hi <= 40 and lo >= -40
        dts = ["float64"] * 4 + ["float32", "longdouble"] + (["float16"] if small else [])
        tdt = rng.choice(dts + ["int64", "int32"] + (["int16", "int8"] if small and s == 0 else []))
        if extreme:
            dts = ["float64", "float64", "float32", "longdouble"]
            tdt = rng.choice(dts)
        if tdt.startswith("int") and s:
            cost = [[v * (2 ** s) for v in row] for row in cost]      # whole numbers after the 2^-s scaling
            if max(abs(v) for row in cost for v in row) >= 2 ** 23:
                tdt = "float64"
        vdt = "float64"
        if form == "vector":
            vdt = rng.choice(dts)
            if vdt == "float16":
                beta = [b % 1024 for b in beta]
        if idx % 60 == 57:
            # more clusters than a one-byte back-pointer can name; the optimum must use clusters above 255
            K, T, s, form = rng.choice([257, 300]), rng.choice([3, 4]), 0, rng.choice(["float", "vector"])
            cost = [[5 + rng.randint(0, 3) for _ in range(K)] for _ in range(T)]
            for i in range(T):
                cost[i][rng.randint(256, K - 1)] = 0
            beta = [1] * T if form == "vector" else 1
            tdt, vdt = "float64", "float64"
        cases.append({"fn": "assign", "cost": cost, "beta": beta, "beta_form": form, "scale": s,
                      "table_dtype": tdt, "vector_dtype": vdt,
                      "big_endian": tdt not in ("int8", "float16") and rng.random() < 0.12,
                      "order": rng.choice(["C", "C", "F", "S"]), "readonly": rng.random() < 0.3,
                      "T": T, "K": K})
    return cases


def py_min_cost(cost, beta):
    """Reference DP used ONLY for evidence statistics (never for a verdict)."""
    T, K = len(cost), len(cost[0])
    row = list(cost[0])
    for i in range(1, T):
        row = [cost[i][k] + min(row[j] + (0 if j == k else beta[i - 1]) for j in range(K))
               for k in range(K)]
    return min(row)


def to_record(case, result):
    T, K = case["T"], case["K"]
    bv = case["beta"] if case["beta_form"] == "vector" else [case["beta"]] * T
    bv = [int(b) for b in bv][:max(T - 1, 0)]
    rec = {"T": T, "K": K, "cost": case["cost"], "beta": bv, "slack": 0,
           "bf": (K ** T) <= 1024, "labels": result["labels"],
           "reported": int(result["reported_scaled"]) if result["reported_exact"] else 0,
           "exact": bool(result["reported_exact"] and result["labels_integral"]),
           "args_same": bool(result["args_unchanged"])}
    return rec


def run(tier):
    rep = common.Report("C01", tier, LEVEL)
    rng = random.Random(common.seed() * 7919 + 1)
    # ---- (1) design level: HOW refines WHAT, exhaustively over all tables in a box
    cfgs = QUICK_CFGS if tier == "quick" else THOROUGH_CFGS
    from . import _common
    _common.model_checks(rep, [("LabellingImpl", f"LabellingImpl_{c}.cfg") for c in cfgs])
    # ---- (2) binding: the real kernel in three execution modes, validated by TLC against WHAT
    n = 240 if tier == "quick" else 6000
    cases = gen_cases(rng, n)
    recs, meta = [], []
    mode_list = ["jit", "nojit", "nonumba"]
    with cf.ThreadPoolExecutor(max_workers=3) as ex:
        outs = list(ex.map(lambda m: modes.run_cases(cases, m), mode_list))
    for mode, results in zip(mode_list, outs):
        for ci, (case, r) in enumerate(zip(cases, results)):
            if "error" in r:
                rep.violation("kernel_raised", {"mode": mode, "case": case, "result": r},
                              f"kernel raised {r['error']} in mode {mode}")
                continue
            recs.append(to_record(case, r))
            meta.append((mode, ci))
    accepted, failures, results = tracecheck.validate("TraceLabelling", recs, {"C01"})
    for r in results:
        rep.add_tlc(r)
    rep.cov["evaluations"] = len(recs)
    rep.cov["traces_validated_against_impl"] = len(accepted)
    for gi, fl in sorted(failures.items()):
        mode, ci = meta[gi]
        rep.violation(fl[0][1], {"mode": mode, "case": cases[ci], "record": recs[gi], "clauses": fl},
                      f"mode={mode}")
    # evidence statistics
    nontrivial = set()
    for ci, case in enumerate(cases):
        T, K = case["T"], case["K"]
        bv = case["beta"] if case["beta_form"] == "vector" else [case["beta"]] * T
        m = py_min_cost(case["cost"], bv)
        const_best = min(sum(case["cost"][i][k] for i in range(T)) for k in range(K))
        if m < const_best:
            nontrivial.add(repr((case["cost"], bv)))
        rep.regime("beta_" + case["beta_form"])
        rep.regime("table_" + case.get("table_dtype", "float64"))
    rep.cov["distinct_nontrivial"] = len(nontrivial)
    rep.cov["rule"] = ("seeded random integer cost tables scaled by 2^-s (exact in float64): tiny value sets "
                       "(ties), negatives, spreads to 2^20, T in 1..60, K in 1..5, scalar beta in 9 numeric "
                       "types and per-pair vector beta (float16/32/64/longdouble), tables of dtype float16/32/64, longdouble, int8..64, "
                       "C/F order, read-only; each executed in modes "
                       "jit/nojit/nonumba; non-trivial = distinct tables whose optimum beats every constant "
                       "labelling (needs at least one switch)")
    for gi in list(range(min(3, len(recs)))):
        rep.sample({"mode": meta[gi][0], "record": recs[gi]})
    rep.cov["exhaustive"] = False
    rep.assumptions += ["TLC integers are 32-bit: tables are integers < 2^21 scaled by 2^-s, exact in float64",
                        "brute force over K^T labellings when K^T <= 1024, model-checked forward DP otherwise"]
    return rep.finish()
