"""C07 - jointly labelled series are independent across series boundaries."""
import random

from .. import common, corpus, runs, tracecheck
from . import _common, c10

LEVEL = "model_checking"


def single_vs_joint(rep, tier):
    """(e) joint labelling of ONE series gives the same result as the single-series front end."""
    rng = random.Random(common.seed() * 7 + 77)
    n = 8 if tier == "quick" else 32
    cfgs = []
    sweepW = [1, 2, 3, 4, 5, 6, 8, 12]
    for i in range(n):
        c = runs.gen_config(rng, 100 + i, tier)
        c["W"] = sweepW[i % len(sweepW)]                 # every residue of W mod 4, odd and even
        if c["W"] >= 8:
            c["N"] = min(c["N"], 2)
        c["lens"] = [max(c["lens"][0], 3 * c["W"] + 3 * c["K"] + c["N"] * c["W"] + 2)]
        c["limit"] = min(c["limit"], 3)
        c["beta_form"] = "float"
        c["eps"] = 0
        a = dict(c, fe="single", id=f"s{i}")
        b = dict(c, fe="joint", id=f"j{i}")
        cfgs += [a, b]
    trs = runs.run_many(cfgs)
    traces = []
    for i in range(n):
        a, b = trs[2 * i], trs[2 * i + 1]
        for t in (a, b):
            if "driver_error" in t:
                raise common.MachineryError(t["driver_error"])

        def ev(t):
            last = t["events"][-1]
            done = last["ev"] == "return"
            # the result classes differ only in point_labels nesting: compare field by field
            key = "cfg%d" % i
            if done:
                import hashlib
                d = hashlib.sha256(repr((last["labelsPerSeries"], last["mrfDigs"], last["costDig"],
                                         last.get("allLL"), last.get("sumLL"), last["K"], last["W"])).encode()
                                   ).hexdigest()[:16]
            else:
                d = "raised:" + last.get("type", "?")
            return {"key": key, "dig": d, "completed": True, "fe": t["hdr"]["fe"]}
        if a["events"][-1]["ev"] != b["events"][-1]["ev"]:
            traces.append({"pid": "C07", "clause": "single_series_joint_equals_single",
                           "events": [ev(a), dict(ev(b), completed=False)]})
        else:
            traces.append({"pid": "C07", "clause": "single_series_joint_equals_single", "events": [ev(a), ev(b)]})
    acc, fail, res = tracecheck.validate("TraceMemo", traces, {"C07"})
    for r in res:
        rep.add_tlc(r)
    rep.cov["evaluations"] += 2 * n
    rep.cov["traces_validated_against_impl"] += len(acc)
    rep.regime("single_vs_joint_pairs", n)
    for gi, fl in sorted(fail.items()):
        rep.violation(fl[0][1], {"cfg": cfgs[2 * gi], "events": traces[gi]["events"], "clauses": fl})


def run(tier):
    rep = common.Report("C07", tier, LEVEL)
    # design level: Stacking (no window mixes series, mask invariant) and the Boundaries theorem
    _common.model_checks(rep, [("Stacking", f"Stacking_{c}.cfg") for c in ("b", "c", "f")] +
                         [("Boundaries", "Boundaries_a.cfg")])
    # (a),(d): mask helper and no-mixing on every tuple in range, against the real helpers
    traces, accepted, failures = c10.run_pipeline_traces(rep, tier, {"C07"}, 7)
    # (b),(c),(f): joint runs of the corpus
    trs = corpus.get(tier)
    joint = [t for t in corpus.completed(trs) if t["hdr"]["fe"] == "joint"]
    corpus.validate_property(rep, "C07", joint, need=("multi_series", "label_change_at_series_boundary"))
    # (e)
    single_vs_joint(rep, tier)
    rep.cov["distinct_nontrivial"] = len({(tuple(t["Ts"]), t["W"]) for t in traces if len(t["Ts"]) > 1}) + \
        len({t["hdr"]["id"] for t in joint if len(t["hdr"]["lens"]) > 1})
    rep.cov["rule"] = ("mask helper + joint stacking on every single shape and random tuples of 2..6 series; every joint "
                       "run of the corpus (switching cost observed at the labelling step, optimality and cost relative "
                       "to the switching cost actually used, cost over within-series pairs only); single-series joint vs "
                       "single front end under equal RNG state; non-trivial = distinct multi-series tuples and joint runs")
    rep.sample({"kind": "joint_run", "hdr": {k: v for k, v in joint[0]["hdr"].items() if k != "workerResults"}})
    rep.assumptions += ["Boundaries.tla proves on the model that a zero switching cost on boundary pairs makes the joint "
                        "optimum the concatenation of per-series optima"]
    return rep.finish()
