"""C14 - results are reproducible and independent of process scheduling."""
import concurrent.futures as cf
import multiprocessing as mp
import random

from .. import common, corpus, runs, tracecheck
from . import _common

LEVEL = "model_checking"


def history(job):
    """One process history: a list of configurations executed one after another in ONE process."""
    out = []
    for c in job:
        out.append(runs.traced_run(c))
    return out


def solver_history(job):
    """A list of optimiser calls executed one after another in ONE process: digests of the returned matrices."""
    common.use_repo()
    import numpy as np
    from fast_ticc import admm
    from .. import proj
    out = []
    for (seed, N, W, factor, lam) in job:
        rng = np.random.default_rng(seed)
        a = rng.normal(size=(3 * N * W, N * W))
        if seed % 3 == 0 and N > 1:
            a[:, ::N] = 1.25                                  # a flat-lined sensor: zero rows and columns in S
        S = np.cov(a, rowvar=False) * factor if N * W > 1 else np.array([[1.25 * factor]])
        S = np.atleast_2d(S)
        try:
            res = admm.admm_optimize_theta(S, lam, W, N)
            out.append({"key": f"{seed}/{N}x{W}/{factor!r}/{lam!r}", "dig": proj.dig(res.theta)})
        except Exception as ex:                              # pylint: disable=broad-except
            out.append({"key": f"{seed}/{N}x{W}/{factor!r}/{lam!r}", "dig": "raised:" + type(ex).__name__})
    return out


def build_solver_histories(tier):
    """The same solve (a) first in its process, (b) after a nearly identical problem (what consecutive rounds hand to
    one worker: a warm start or memo keyed on 'almost the same input' would change the bits), (c) after itself,
    (d) after problems of another shape."""
    rng = random.Random(common.seed() * 69621 + 14)
    hist = []
    for i in range(6 if tier == "quick" else 40):
        N, W = rng.choice([(2, 2), (3, 2), (2, 3), (1, 3), (3, 1)])
        seed = rng.randrange(1 << 30)
        lam = rng.choice([0.05, 0.11, 0.5])
        target = (seed, N, W, 1.0, lam)
        near = (seed, N, W, 1.0 + 2.0 ** -10, lam)
        near2 = (seed, N, W, 1.0 - 2.0 ** -12, lam)
        other = (rng.randrange(1 << 30), W, N + 1, 1.0, lam)
        hist += [[target], [near, target], [near2, near, target], [target, target], [other, target], [other, near, target]]
    return common.pmap(solver_history, hist)


def build(tier):
    rng = random.Random(common.seed() * 48271 + 14)
    nbase = 3 if tier == "quick" else 12
    bases = []
    for i in range(nbase):
        c = runs.gen_config(rng, 4000 + i, tier)
        c.update(eps=0, scale=1.0, K=3 + i % 2, limit=4, fe="single" if i % 3 else "joint")
        if c["fe"] == "joint" and len(c["lens"]) < 2:
            c["lens"] = [c["lens"][0], max(c["W"], c["lens"][0] - 9)]
        if c["fe"] == "single":
            c["lens"] = c["lens"][:1]
        if i == 0:
            # more clusters than regimes and a stiff switching cost: clusters collapse and are REPOPULATED, the only
            # use of the global Python generator after the pool is opened
            c.update(K=5, n_regimes=2, beta=50.0, beta_form="float", m=3, limit=5)
        if i == nbase - 1:
            c["degenerate"] = "constant_sensor"       # a stuck channel: zero variance in every cluster
            c["N"] = max(c["N"], 2)
        bases.append(c)
    others = [runs.gen_config(rng, 4500 + i, tier) for i in range(4)]
    for o in others:
        o["limit"] = 2
    variants = [(1, False, None), (1, True, None), (2, True, 11), (3, True, 12), (5, True, 13), (8, True, 14)]
    if tier == "thorough":
        variants += [(4, True, 15), (6, True, 16), (7, True, 17), (3, False, 18), (8, True, 19), (2, True, 20)]
    histories = []
    for bi, b in enumerate(bases):
        for vi, (P, mpon, delay) in enumerate(variants):
            v = dict(b, P=P, mp=mpon, delay_seed=delay, id=f"{b['id']}/P{P}/mp{int(mpon)}/d{delay}")
            prefix = []
            if vi % 3 == 1:
                prefix = [dict(others[(bi + vi) % len(others)], id=f"prefix{bi}{vi}")]
            elif vi % 3 == 2:
                prefix = [dict(others[(bi + vi) % len(others)], id=f"prefix{bi}{vi}a"), dict(v, id=v["id"] + "/first")]
            elif vi == 3:
                # earlier calls on SAME-SHAPE data with other values / the other estimator (state keyed on shapes or
                # on membership only would leak between them)
                prefix = [dict(v, id=f"prefix{bi}{vi}s", scale=4.0), dict(v, id=f"prefix{bi}{vi}b", biased=not v["biased"])]
            histories.append(prefix + [v])
    # a call whose optimisation problems are LARGER than anything else here (N*W = 60), followed by a call whose solves
    # run into the iteration budget (data of scale 30): settings that stick from the first would change the second
    big = dict(runs.gen_config(rng, 4900, tier), fe="single", N=6, W=10, K=2, limit=1, m=3, eps=0, scale=1.0, lam=0.11,
               lam_form="float", beta=5.0, beta_form="float", n_regimes=2, P=1, mp=False, readonly=False, fortran=False,
               id="prefixNW60")
    big["lens"] = [130]
    capped = dict(runs.gen_config(rng, 4901, tier), fe="single", N=2, W=3, K=2, limit=2, m=3, eps=0, scale=30.0, lam=0.11,
                  lam_form="float", beta=5.0, beta_form="float", n_regimes=2, P=1, mp=False, readonly=False, fortran=False)
    capped["lens"] = [150]
    capped["id"] = "capped/P1/mp0/dNone"
    histories.append([capped])
    histories.append([big, dict(capped, id="capped/P1/mp0/dafterNW60")])
    res = common.pmap(history, histories)
    return {"bases": [b["id"] for b in bases], "histories": res}


def run(tier):
    rep = common.Report("C14", tier, LEVEL)
    _common.model_checks(rep, [("Pool", "Pool_a.cfg"), ("Pool", "Pool_b.cfg")] +
                         ([("Pool", "Pool_c.cfg")] if tier == "thorough" else []) +
                         [("IndexMaps", "IndexMaps_a.cfg")])
    data = corpus.cached(f"sched_{tier}_{common.seed()}", lambda: build(tier))
    by_base, traces_for_loop = {}, []
    for hist in data["histories"]:
        for pos, t in enumerate(hist):
            if "driver_error" in t:
                raise common.MachineryError(t["driver_error"])
            base = str(t["hdr"]["id"]).split("/")[0]
            if base.startswith("prefix"):
                continue
            done = t["events"][-1]["ev"] == "return"
            by_base.setdefault(base, []).append(
                {"key": base, "dig": t["hdr"].get("resultDig", "raised:" + t["events"][-1].get("type", "?")),
                 "completed": True, "P": t["hdr"]["P"], "mp": t["hdr"]["mp"],
                 "delay": str(t["hdr"]["cfg"].get("delay_seed")), "position_in_history": pos})
            if done:
                traces_for_loop.append(t)
            rep.regime("P%d" % t["hdr"]["P"])
            rep.regime("mp_on" if t["hdr"]["mp"] else "mp_off")
            rep.regime("after_other_calls" if pos > 0 else "first_call_in_process")
            if t["hdr"]["cfg"].get("delay_seed") is not None:
                rep.regime("delayed_tasks")
    memo = [{"pid": "C14", "clause": "equal_inputs_and_rng_state_give_bit_identical_results", "events": evs}
            for base, evs in sorted(by_base.items())]
    acc, fail, res = tracecheck.validate("TraceMemo", memo, {"C14"})
    for r in res:
        rep.add_tlc(r)
    for gi, fl in sorted(fail.items()):
        rep.violation(fl[0][1], {"events": memo[gi]["events"], "clauses": fl})
    rep.cov["evaluations"] += sum(len(m["events"]) for m in memo)
    rep.cov["traces_validated_against_impl"] += len(acc)
    # the optimiser entry point (what the workers run): independent of the calls made earlier in the same process
    sh = corpus.cached(f"solverhist_{tier}_{common.seed()}", lambda: build_solver_histories(tier))
    by_key = {}
    for hist in sh:
        for pos, e in enumerate(hist):
            by_key.setdefault(e["key"], []).append({"key": e["key"], "dig": e["dig"], "completed": True, "P": 0, "mp": False,
                                                    "delay": "solver", "position_in_history": pos})
    memo2 = [{"pid": "C14", "clause": "optimiser_result_independent_of_earlier_calls_in_the_process", "events": evs}
             for key, evs in sorted(by_key.items()) if len(evs) > 1]
    acc2, fail2, res2 = tracecheck.validate("TraceMemo", memo2, {"C14"})
    for r in res2:
        rep.add_tlc(r)
    for gi, fl in sorted(fail2.items()):
        rep.violation(fl[0][1], {"events": memo2[gi]["events"], "clauses": fl})
    rep.cov["evaluations"] += sum(len(m["events"]) for m in memo2)
    rep.cov["traces_validated_against_impl"] += len(acc2)
    rep.notes["solver_histories"] = len(sh)
    # completion-order permutations actually happened?  (worker results arrive out of task order)
    permuted = 0
    for t in traces_for_loop:
        if t["hdr"]["cfg"].get("delay_seed") is not None and t["hdr"]["P"] > 1 and t["hdr"]["mp"]:
            permuted += 1
    rep.notes["delayed_multi_worker_runs"] = permuted
    corpus.validate_property(rep, "C14", traces_for_loop)
    corpus.validate_property(rep, "C14", corpus.completed(corpus.get(tier)))
    for n in ("P8", "P1", "mp_on", "mp_off", "after_other_calls", "delayed_tasks"):
        if n not in rep.regimes:
            raise common.MachineryError(f"C14: regime {n} not entered")
    rep.cov["distinct_nontrivial"] = sum(len({(e["P"], e["mp"], e["delay"], e["position_in_history"]) for e in m["events"]})
                                         for m in memo)
    rep.cov["rule"] = ("each base configuration executed in separate processes with num_processors in {1,2,3,5,8,...}, "
                       "multiprocessing off/on, seeded per-task delays that permute completion order (wrapper substituted for "
                       "the public optimiser entry point), first in its process or after other calls (other shapes, a repetition); "
                       "TLC's memo table requires one result digest per key; non-trivial = distinct (P, MP, delay seed, position) variants")
    rep.sample(memo[0])
    rep.assumptions += ["BLAS-internal threading pinned to one thread (outside the property's quantifier)",
                        "the digest covers every field of the result bitwise"]
    return rep.finish()
