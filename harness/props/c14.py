"""C14 - results are reproducible and independent of process scheduling."""
import concurrent.futures as cf
import multiprocessing as mp
import random

from .. import common, corpus, runs, tracecheck
from . import _common

LEVEL = "model_checking"


def history(job):
    """One process history: a list of configurations executed one after another in ONE process."""
    out = []
    for c in job:
        out.append(runs.traced_run(c))
    return out


def build(tier):
    rng = random.Random(common.seed() * 48271 + 14)
    nbase = 3 if tier == "quick" else 12
    bases = []
    for i in range(nbase):
        c = runs.gen_config(rng, 4000 + i, tier)
        c.update(eps=0, scale=1.0, K=3 + i % 2, limit=4, fe="single" if i % 3 else "joint")
        if c["fe"] == "joint" and len(c["lens"]) < 2:
            c["lens"] = [c["lens"][0], max(c["W"], c["lens"][0] - 9)]
        if c["fe"] == "single":
            c["lens"] = c["lens"][:1]
        bases.append(c)
    others = [runs.gen_config(rng, 4500 + i, tier) for i in range(4)]
    for o in others:
        o["limit"] = 2
    variants = [(1, False, None), (1, True, None), (2, True, 11), (3, True, 12), (5, True, 13), (8, True, 14)]
    if tier == "thorough":
        variants += [(4, True, 15), (6, True, 16), (7, True, 17), (3, False, 18), (8, True, 19), (2, True, 20)]
    histories = []
    for bi, b in enumerate(bases):
        for vi, (P, mpon, delay) in enumerate(variants):
            v = dict(b, P=P, mp=mpon, delay_seed=delay, id=f"{b['id']}/P{P}/mp{int(mpon)}/d{delay}")
            prefix = []
            if vi % 3 == 1:
                prefix = [dict(others[(bi + vi) % len(others)], id=f"prefix{bi}{vi}")]
            elif vi % 3 == 2:
                prefix = [dict(others[(bi + vi) % len(others)], id=f"prefix{bi}{vi}a"), dict(v, id=v["id"] + "/first")]
            elif vi == 3:
                # earlier calls on SAME-SHAPE data with other values / the other estimator (state keyed on shapes or
                # on membership only would leak between them)
                prefix = [dict(v, id=f"prefix{bi}{vi}s", scale=4.0), dict(v, id=f"prefix{bi}{vi}b", biased=not v["biased"])]
            histories.append(prefix + [v])
    res = common.pmap(history, histories)
    return {"bases": [b["id"] for b in bases], "histories": res}


def run(tier):
    rep = common.Report("C14", tier, LEVEL)
    _common.model_checks(rep, [("Pool", "Pool_a.cfg"), ("Pool", "Pool_b.cfg")] +
                         ([("Pool", "Pool_c.cfg")] if tier == "thorough" else []) +
                         [("IndexMaps", "IndexMaps_a.cfg")])
    data = corpus.cached(f"sched_{tier}_{common.seed()}", lambda: build(tier))
    by_base, traces_for_loop = {}, []
    for hist in data["histories"]:
        for pos, t in enumerate(hist):
            if "driver_error" in t:
                raise common.MachineryError(t["driver_error"])
            base = str(t["hdr"]["id"]).split("/")[0]
            if base.startswith("prefix"):
                continue
            done = t["events"][-1]["ev"] == "return"
            by_base.setdefault(base, []).append(
                {"key": base, "dig": t["hdr"].get("resultDig", "raised:" + t["events"][-1].get("type", "?")),
                 "completed": True, "P": t["hdr"]["P"], "mp": t["hdr"]["mp"],
                 "delay": str(t["hdr"]["cfg"].get("delay_seed")), "position_in_history": pos})
            if done:
                traces_for_loop.append(t)
            rep.regime("P%d" % t["hdr"]["P"])
            rep.regime("mp_on" if t["hdr"]["mp"] else "mp_off")
            rep.regime("after_other_calls" if pos > 0 else "first_call_in_process")
            if t["hdr"]["cfg"].get("delay_seed") is not None:
                rep.regime("delayed_tasks")
    memo = [{"pid": "C14", "clause": "equal_inputs_and_rng_state_give_bit_identical_results", "events": evs}
            for base, evs in sorted(by_base.items())]
    acc, fail, res = tracecheck.validate("TraceMemo", memo, {"C14"})
    for r in res:
        rep.add_tlc(r)
    for gi, fl in sorted(fail.items()):
        rep.violation(fl[0][1], {"events": memo[gi]["events"], "clauses": fl})
    rep.cov["evaluations"] += sum(len(m["events"]) for m in memo)
    rep.cov["traces_validated_against_impl"] += len(acc)
    # completion-order permutations actually happened?  (worker results arrive out of task order)
    permuted = 0
    for t in traces_for_loop:
        if t["hdr"]["cfg"].get("delay_seed") is not None and t["hdr"]["P"] > 1 and t["hdr"]["mp"]:
            permuted += 1
    rep.notes["delayed_multi_worker_runs"] = permuted
    corpus.validate_property(rep, "C14", traces_for_loop)
    corpus.validate_property(rep, "C14", corpus.completed(corpus.get(tier)))
    for n in ("P8", "P1", "mp_on", "mp_off", "after_other_calls", "delayed_tasks"):
        if n not in rep.regimes:
            raise common.MachineryError(f"C14: regime {n} not entered")
    rep.cov["distinct_nontrivial"] = sum(len({(e["P"], e["mp"], e["delay"], e["position_in_history"]) for e in m["events"]})
                                         for m in memo)
    rep.cov["rule"] = ("each base configuration executed in separate processes with num_processors in {1,2,3,5,8,...}, "
                       "multiprocessing off/on, seeded per-task delays that permute completion order (wrapper substituted for "
                       "the public optimiser entry point), first in its process or after other calls (other shapes, a repetition); "
                       "TLC's memo table requires one result digest per key; non-trivial = distinct (P, MP, delay seed, position) variants")
    rep.sample(memo[0])
    rep.assumptions += ["BLAS-internal threading pinned to one thread (outside the property's quantifier)",
                        "the digest covers every field of the result bitwise"]
    return rep.finish()
