"""Run generators and the traced execution of complete runs of both front ends."""
import contextlib
import glob
import hashlib
import io
import json
import math
import os
import random
import time
import traceback

import numpy as np

from . import common, obs, proj


# ------------------------------------------------------------------------------- data
def make_series(rng, T, N, n_regimes, scale, offset=0.0, seg_min=6):
    """Piecewise-stationary Gaussian series with temporal correlation inside each regime."""
    means = rng.normal(0, 2.5, size=(n_regimes, N))
    mix = [np.eye(N) * rng.uniform(0.4, 1.5) + rng.normal(0, 0.35, size=(N, N)) for _ in range(n_regimes)]
    x = np.zeros((T, N))
    t = 0
    reg = int(rng.integers(n_regimes))
    e_prev = rng.normal(size=N)
    while t < T:
        seg = int(rng.integers(seg_min, max(seg_min + 1, T // 2 + 1)))
        for _ in range(seg):
            if t >= T:
                break
            e = rng.normal(size=N)
            x[t] = means[reg] + mix[reg] @ (e + 0.6 * e_prev)
            e_prev = e
            t += 1
        reg = int((reg + 1 + rng.integers(max(n_regimes - 1, 1))) % n_regimes)
    return (x + offset) * scale


def gen_config(rng, i, tier="quick"):
    """One run configuration.  The first few indices force the regimes every tier must enter."""
    forced = {
        0: dict(fe="single", K=3, limit=6, m=3),
        1: dict(fe="joint", nser=3, K=3, limit=5, m=3),
        2: dict(fe="single", K=5, limit=4, m=2, n_regimes=2),          # more clusters than regimes
        3: dict(fe="single", K=2, limit=1),
        4: dict(fe="joint", nser=1, K=2, limit=4),
        5: dict(fe="single", K=4, limit=3, W=1, N=1),
        6: dict(fe="joint", nser=4, K=3, limit=4, exactW=True),
        7: dict(fe="single", K=3, limit=5, biased=True, eps=1e-3),
        8: dict(fe="single", K=4, limit=6, m=4, n_regimes=2, beta=0.0),
        9: dict(fe="joint", nser=2, K=2, limit=3, beta=0.5, W=2),
        10: dict(fe="single", K=3, limit=8, m=5, beta=2.0, n_regimes=4),
        11: dict(fe="joint", nser=6, K=3, limit=3, W=3),
        14: dict(fe="joint", nser=3, K=2, limit=3, W=3, exactW=True, beta=2.0, scalar_beta=True),
        15: dict(fe="joint", nser=4, K=3, limit=2, W=2, exactW=True, beta=0.5, scalar_beta=True, exact_first=True),
        16: dict(fe="joint", nser=2, K=2, limit=3, W=4, exactW=True, beta=5.0, scalar_beta=True),
        24: dict(fe="joint", nser=3, K=2, limit=3, W=3, beta=1.0, scalar_beta=True, equal_lens=True, n_regimes=2),
        25: dict(fe="joint", nser=2, K=3, limit=3, W=2, beta=0.5, scalar_beta=True, equal_lens=True, n_regimes=3),
        # a floor BELOW the threshold of the BIC's parameter count (2e-5): entries between the two are kept by the floor
        # and must not be counted
        28: dict(fe="single", nser=1, K=2, limit=3, W=2, N=2, eps=1e-7, biased=True, n_regimes=2, scale=1.0, lam_form="float"),
        29: dict(fe="single", nser=1, K=3, limit=3, W=3, N=2, eps=1e-9, biased=False, n_regimes=3, scale=1.0, lam_form="float"),
        # series that are not float64 (float32, int32), handed over in a caller-owned LIST
        32: dict(fe="joint", nser=2, K=2, limit=2, W=2, N=2, eps=0, n_regimes=2, scale=1.0, series_dtype="float32",
                 lam_form="float", scalar_beta=True, beta=2.0, readonly=False, fortran=False),
        33: dict(fe="joint", nser=3, K=2, limit=2, W=1, N=2, eps=0, n_regimes=2, scale=1.0, series_dtype="int32",
                 lam_form="float", scalar_beta=True, beta=2.0, readonly=False, fortran=False),
        34: dict(fe="single", nser=1, K=2, limit=2, W=3, N=2, eps=0, n_regimes=2, scale=1.0, series_dtype="float32",
                 lam_form="float", scalar_beta=True, beta=2.0, readonly=True, fortran=False),
        # data whose LEVEL is far above its spread (absolute coordinates, epoch times): where one-pass moment formulas
        # (E[xx'] - mm', sum of squares - n m^2) lose every digit while the two-pass definitions do not
        30: dict(fe="single", nser=1, K=3, limit=4, W=2, N=2, eps=0, biased=False, n_regimes=3, scale=1.0, offset=1e6,
                 lam_form="float", scalar_beta=True, beta=2.0),
        31: dict(fe="joint", nser=2, K=2, limit=3, W=1, N=3, eps=0, biased=True, n_regimes=2, scale=1.0, offset=1e8,
                 lam_form="float", scalar_beta=True, beta=2.0),
        # a matrix sparsity weight that is NOT symmetric (the solver reads its upper triangle): a tempting target for an
        # in-place symmetrisation of the caller's matrix (C19)
        26: dict(fe="single", nser=1, K=2, limit=2, W=2, lam_form="matrix_asym", readonly=False, fortran=False, n_regimes=2),
        27: dict(fe="joint", nser=2, K=2, limit=2, W=1, lam_form="matrix_asym", readonly=False, fortran=False, n_regimes=2),
        # one gross outlier: it becomes a one-point cluster, is repopulated at the start of a round and won back by
        # the relabelling, so the run 'converges' in a round that began with a repopulation
        18: dict(fe="single", K=3, limit=15, m=2, W=1, N=2, beta=0.1, scalar_beta=True, biased=True, eps=0,
                 n_regimes=2, outlier=True, scale=1.0, lam=0.11),
        19: dict(fe="single", K=3, limit=15, m=2, W=1, N=2, beta=0.1, scalar_beta=True, biased=False, eps=0,
                 n_regimes=2, outlier=True, scale=1.0, lam=0.11),
        20: dict(fe="single", K=3, limit=15, m=3, W=1, N=2, beta=0.1, scalar_beta=True, biased=True, eps=0,
                 n_regimes=2, outlier=True, scale=1.0, lam=0.11),
        21: dict(fe="single", K=3, limit=15, m=2, W=1, N=3, beta=0.5, scalar_beta=True, biased=True, eps=0,
                 n_regimes=2, outlier=True, scale=1.0, lam=0.11),
        22: dict(fe="single", K=3, limit=15, m=4, W=1, N=2, beta=0.1, scalar_beta=True, biased=True, eps=0,
                 n_regimes=2, outlier=True, scale=1.0, lam=0.11),
        23: dict(fe="single", K=3, limit=15, m=2, W=1, N=2, beta=0.02, scalar_beta=True, biased=True, eps=0,
                 n_regimes=2, outlier=True, scale=1.0, lam=0.11),
    }.get(i, {})
    c = {"id": i}
    c["fe"] = forced.get("fe", rng.choice(["single", "single", "joint"]))
    c["N"] = forced.get("N", rng.choice([1, 2, 2, 3, 4]))
    c["W"] = forced.get("W", rng.choice([1, 2, 3, 3, 4, 5, 6]))
    c["K"] = forced.get("K", rng.choice([2, 3, 3, 4, 5]))
    c["limit"] = forced.get("limit", rng.choice([1, 2, 3, 4, 6, 10]))
    c["m"] = forced.get("m", rng.choice([1, 2, 3, 5, 8]))
    c["biased"] = forced.get("biased", rng.random() < 0.3)
    c["eps"] = forced.get("eps", rng.choice([0, 0, 0, 1e-4, 1e-2]))      # (the number of draws is kept: forced ids below)
    c["beta"] = forced.get("beta", rng.choice([0.0, 0.5, 2.0, 5.0, 20.0, 100.0]))
    c["lam"] = rng.choice([0.0, 0.01, 0.11, 0.11, 0.5, 1.0])
    c["n_regimes"] = forced.get("n_regimes", rng.choice([1, 2, 3, 4]))
    c["scale"] = rng.choice([1.0, 1.0, 1.0, 1e-3, 1e3])
    nser = forced.get("nser", 1 if c["fe"] == "single" else rng.choice([1, 2, 3, 4, 6]))
    W = c["W"]
    base = rng.randint(40, 110 if tier == "quick" else 260)
    lens = []
    for s in range(nser):
        if forced.get("exactW") and s == (0 if forced.get("exact_first") else 1):
            lens.append(W)                                   # a series of exactly W rows
        else:
            lens.append(max(W, base // nser + rng.randint(0, 25)))
    # the mixture model needs at least K stacked rows in total
    while sum(l - W + 1 for l in lens) < max(3 * c["K"], c["N"] * W + 2):
        lens[0] += 10
    if forced.get("equal_lens"):
        lens = [lens[0]] * nser                       # all series of the SAME length
    c["lens"] = lens
    if forced.get("outlier"):
        c["outlier"] = True
        c["lens"] = [120]
        c["lam"] = 0.11
        c["scale"] = 1.0
    c["P"] = rng.choice([1, 1, 2, 3])
    c["mp"] = rng.random() < 0.4
    c["data_seed"] = rng.randrange(1 << 30)
    c["rng_seed"] = rng.randrange(1 << 30)
    c["lam_form"] = rng.choice(["float", "float", "float", "matrix_const", "matrix_sym"])
    c["readonly"] = rng.random() < 0.3
    c["fortran"] = rng.random() < 0.2
    c["beta_form"] = rng.choice(["float", "float", "int", "vector", "vector_var"]) if c["beta"] == int(c["beta"]) else \
        rng.choice(["float", "vector", "vector_var"])
    if i in (8, 10, 13, 17):
        c["beta_form"] = "vector_var"
    if forced.get("scalar_beta"):
        c["beta_form"] = "float"
    for key in ("lam_form", "readonly", "fortran", "offset", "series_dtype"):
        if key in forced:
            c[key] = forced[key]
    if c["lam_form"] == "matrix_asym" and c["lam"] == 0.0:
        c["lam"] = 0.11
    return c


def build_inputs(c):
    rng = np.random.default_rng(c["data_seed"])
    series = [make_series(rng, T, c["N"], c["n_regimes"], c["scale"], offset=c.get("offset", 0.0))
              for T in c["lens"]]
    if c.get("ramp"):
        r3 = np.random.default_rng(c["data_seed"] + 11)       # a noisy ramp: as many distinguishable levels as clusters
        series = [np.arange(T)[:, None] * 0.05 + r3.normal(0, 0.02, (T, c["N"])) for T in c["lens"]]
    if c.get("outlier"):
        r2 = np.random.default_rng(c["data_seed"] + 3)
        series[0] = np.concatenate([r2.normal(0, 1, (len(series[0]) // 2, c["N"])),
                                    r2.normal(6, 1, (len(series[0]) - len(series[0]) // 2, c["N"]))])
        series[0][len(series[0]) // 4] = 40.0 * np.array([(-1.0) ** j for j in range(c["N"])])
    if c.get("degenerate") == "duplicated":
        series = [np.repeat(s[: max(-(-len(s) // 3), c["W"] + 2)], 3, axis=0)[: len(s)] for s in series]   # same length
    elif c.get("degenerate") == "constant_sensor":
        for s in series:
            s[:, 0] = 1.25
    if c.get("col_offsets"):
        series = [s + np.asarray(c["col_offsets"])[None, :] for s in series]
    W = c["W"]
    total = sum(T - W + 1 for T in c["lens"])
    form = c.get("beta_form", "float")
    b = c["beta"]
    if form == "vector":
        beta = np.zeros(total) + float(b)
    elif form == "vector_var":          # a genuinely per-pair cost: unequal, non-negative entries
        r = np.random.default_rng(c["data_seed"] + 7)
        beta = float(b) * (0.25 + 1.5 * r.random(total)) + r.integers(0, 2, size=total) * 0.125
    elif form == "int":
        beta = int(b)
    elif form == "float":
        beta = float(b)
    else:
        beta = getattr(np, form.split(".", 1)[1])(b)
    lf = c.get("lam_form", "float")
    nw = c["N"] * W
    lam = c["lam"]
    if lf == "matrix_const":
        lam = np.zeros((nw, nw)) + float(c["lam"])
    elif lf == "matrix_sym":
        r = np.random.default_rng(c["data_seed"] + 1)
        a = r.uniform(0.5, 1.5, size=(nw, nw)) * float(c["lam"])
        lam = (a + a.T) / 2
    elif lf == "matrix_asym":
        r = np.random.default_rng(c["data_seed"] + 1)
        lam = np.ascontiguousarray(r.uniform(0.5, 1.5, size=(nw, nw)) * float(c["lam"]))
    elif lf == "int":
        lam = int(lam)
    elif lf == "float":
        lam = float(lam)
    else:
        lam = getattr(np, lf.split(".", 1)[1])(lam)
    ef = c.get("eps_form", "float")
    eps = c["eps"]
    eps = int(eps) if ef == "int" else float(eps) if ef == "float" else getattr(np, ef.split(".", 1)[1])(eps)
    inv = c.get("invalid")
    if inv == "nan_data":
        series[0][len(series[0]) // 2, 0] = np.nan
    elif inv == "beta_wrong_length":
        beta = np.ones(5)
    elif inv == "lambda_nested_list":          # the matrix form as a plain nested list: refused inside a pool worker
        lam = [[float(c["lam"])] * nw for _ in range(nw)]
    elif inv == "lambda_none":
        lam = None
    elif inv == "lambda_string":
        lam = "0.11"
    elif inv == "lambda_wrong_shape":
        lam = np.ones((nw + 1, nw + 1))
    elif inv == "mismatched_columns" and len(series) > 1:
        series[-1] = series[-1][:, :max(1, c["N"] - 1)] if c["N"] > 1 else np.hstack([series[-1], series[-1]])
    hyper = dict(window_size=W, num_clusters=c["K"], sparsity_weight=lam, label_switching_cost=beta,
                 iteration_limit=c["limit"], min_meaningful_covariance=eps, num_processors=c["P"],
                 min_cluster_size=c["m"], biased_covariance=c["biased"])
    return series, hyper


def _swapped_call(fast_ticc, how, series, hyper):
    """Give a front end the OTHER front end's kind of input (C20)."""
    if how == "list_to_single":
        return fast_ticc.ticc_labels(list(series), **hyper)
    if how == "tuple_to_single":
        return fast_ticc.ticc_labels(tuple(series), **hyper)
    if how == "generator_to_single":
        return fast_ticc.ticc_labels(iter(series), **hyper)
    if how in ("array_to_joint", "wide_array_to_joint"):
        return fast_ticc.ticc_joint_labels(series[0], **hyper)
    if how == "vector_to_joint":
        return fast_ticc.ticc_joint_labels(series[0][:, 0], **hyper)
    raise ValueError(how)


def result_digest(res):
    """Digest of the COMPLETE result (every field, bitwise)."""
    h = hashlib.sha256()
    for name in sorted(vars(res)):
        v = getattr(res, name)
        h.update(name.encode())
        if name == "markov_random_fields":
            for m in v:
                h.update(proj.dig(m).encode())
        elif name == "point_labels":
            h.update(repr([[int(x) for x in l] for l in v] if v and isinstance(v[0], (list, tuple))
                          else [int(x) for x in v]).encode())
        elif isinstance(v, (list, tuple, np.ndarray)):
            h.update(proj.dig(np.asarray(v, dtype=np.float64)).encode())
        elif isinstance(v, (float, np.floating)):
            h.update(repr(float(v)).encode())
        else:
            h.update(repr(v).encode())
    return h.hexdigest()[:20]


def live_children():
    import multiprocessing
    return len(multiprocessing.active_children())


# ------------------------------------------------------------------------------- execution
HANG_LIMIT_S = 900


class HarnessHangTimeout(BaseException):
    """Raised by the harness's alarm inside a library call that does not come back."""


def _alarm(signum, frame):
    raise HarnessHangTimeout("call still running after the harness's hang limit")


def traced_run(c, fault_plan=None, keep_model=False):
    """Execute one configuration with the hooks on; returns the trace (JSON-able dict)."""
    common.use_repo()
    import fast_ticc
    from fast_ticc import _verif_hooks as vh
    from . import sink, faults
    series, hyper = build_inputs(c)
    if c.get("series_dtype"):
        # series stored as float32 / integers (values rounded so that the conversion the library makes is exact)
        dt = np.dtype(c["series_dtype"])
        series = [np.round(s * 8).astype(dt) if dt.kind in "iu" else s.astype(dt) for s in series]
    if c.get("fortran"):
        series = [np.asfortranarray(s) for s in series]
    if c.get("readonly"):
        for s in series:
            s.setflags(write=False)
        for v in (hyper["sparsity_weight"], hyper["label_switching_cost"]):
            if isinstance(v, np.ndarray):
                v.setflags(write=False)
    W, K, N = c["W"], c["K"], c["N"]
    stacked_lens = [T - W + 1 for T in c["lens"]]
    hdr = {"id": c["id"], "fe": c["fe"], "lens": list(c["lens"]), "stackedLens": stacked_lens,
           "T": sum(stacked_lens), "K": K, "W": W, "N": N, "limit": c["limit"], "m": c["m"],
           "biased": bool(c["biased"]), "eps": float(c["eps"]), "epsPos": c["eps"] > 0,
           "P": c["P"], "mp": bool(c["mp"]), "lamDig": proj.val_dig(hyper["sparsity_weight"]),
           "betaDig": proj.val_dig(hyper["label_switching_cost"]), "betaForm": c.get("beta_form", "float"),
           "lamForm": c.get("lam_form", "float"), "scale": c["scale"], "cfg": c, "scripted": bool(c.get("script"))}
    hdr["fault"] = ({"kind": "wrong_front_end"} if c.get("swap") else {"kind": "invalid_argument"} if c.get("invalid") else
                    dict(fault_plan) if fault_plan else {"kind": c.get("expect", "none")})
    # "never hangs" (C20): a call that is still running after HANG_LIMIT_S is interrupted by an alarm and recorded as
    # a raise event of type HarnessHangTimeout, whose elapsed time fails the clause call_does_not_hang.  The limit is
    # far above any legitimate duration (seconds), even on a machine loaded 30 times over (observed: 58 s).
    hang_limit = int(c.get("hang_limit_s", HANG_LIMIT_S))
    hdr["timeLimitMs"] = int(c.get("time_limit_ms", hang_limit * 1000 - 5000))
    tracedir = common.scratch("run-")
    hdr["_beta_caller"] = hyper["label_switching_cost"]
    rec = sink.Recorder(hdr, tracedir)
    def _snapshot():
        # bytes of every array AND the identity / dtype of the elements of the caller's list of series
        return {"series": [proj.dig(s) for s in series], "series_objects": [(id(s), str(s.dtype)) for s in series],
                "n_series": len(series),
                "lam": proj.dig(hyper["sparsity_weight"]) if not isinstance(hyper["sparsity_weight"], (list, str, type(None)))
                else repr(hyper["sparsity_weight"]),
                "beta": proj.dig(hyper["label_switching_cost"])}
    arg_snap = _snapshot()
    if c["mp"]:
        os.environ["CUPCAKE_ENABLE_MULTIPROCESSING"] = "1"
    else:
        os.environ.pop("CUPCAKE_ENABLE_MULTIPROCESSING", None)
    np.random.seed(c["rng_seed"] % (2 ** 32))
    random.seed(c["rng_seed"])
    marker = os.path.join(tracedir, "fault.fired")
    faults.install(fault_plan, c.get("delay_seed"), marker)
    if c.get("script"):
        from . import scripted
        scripted.install(c["script"], K)
    vh.install_sink(rec)
    res, exc = None, None
    t0 = time.time()
    import signal
    import threading
    armed = threading.current_thread() is threading.main_thread()
    if armed:
        old_handler = signal.signal(signal.SIGALRM, _alarm)
        signal.alarm(hang_limit)
    try:
        with contextlib.redirect_stdout(io.StringIO()):
            if c.get("swap"):
                res = _swapped_call(fast_ticc, c["swap"], series, hyper)
            elif c["fe"] == "single":
                res = fast_ticc.ticc_labels(series[0], **hyper)
            else:
                res = fast_ticc.ticc_joint_labels(series if not c.get("as_generator") else iter(series), **hyper)
    except BaseException as ex:                              # pylint: disable=broad-except
        exc = ex
        children = live_children()                           # observed while the caller holds the exception
        tb = traceback.format_exc()
    finally:
        if armed:
            signal.alarm(0)
            signal.signal(signal.SIGALRM, old_handler)
        vh.install_sink(None)
        faults.uninstall()
        if c.get("script"):
            scripted.uninstall()
    elapsed = time.time() - t0
    args_same = (arg_snap == _snapshot())
    events = rec.events
    if exc is not None:
        events.append({"ev": "raise", "type": type(exc).__name__, "message": str(exc)[:300],
                       "children": children, "elapsedMs": int(elapsed * 1000), "args_same": args_same,
                       "tb": tb[-1500:],
                       "names_donor_shortage": "donor" in str(exc).lower(),
                       "names_other_entry_point": ("ticc_joint_labels" in str(exc)) or ("ticc_labels" in str(exc))})
        del exc
    else:
        events.append(return_event(c, hdr, rec, res, series, args_same))
    # worker events (never merged by wall clock: a set keyed by digests)
    wr = []
    for p in sorted(glob.glob(os.path.join(tracedir, "w*.ndjson"))):
        with open(p) as fh:
            for line in fh:
                e = json.loads(line)
                if e["ev"] == "admm_exit":
                    wr.append([e["covDig"], e["thetaDig"], e["lamDig"], e["pid"], e["converged"], e["iterations"]])
    hdr["faultFired"] = os.path.exists(marker)
    hdr.pop("_beta_caller", None)
    common.rm(tracedir)
    hdr["workerResults"] = wr
    hdr["elapsedMs"] = int(elapsed * 1000)
    tr = {"hdr": hdr, "events": events}
    if res is not None:
        hdr["resultDig"] = result_digest(res)
    return tr


def _limbs(values, s):
    return [proj.limb(v, s) for v in values]


def return_event(c, hdr, rec, res, series, args_same):
    """Everything the trace specification needs about the returned result and the final model."""
    K, W, N = c["K"], c["W"], c["N"]
    ev = {"ev": "return", "args_same": args_same, "children": live_children()}
    pl = res.point_labels

    def _as_list(l):
        """One series' labels as a list; something that is not a sequence of labels becomes a one-element list
        holding the marker -99 (never a legal label), so that the shape clauses of C04 fail instead of the driver."""
        try:
            return list(l)
        except TypeError:
            return [-99]

    def _as_int(x):
        try:
            return int(x) if float(x) == int(x) else -98
        except (TypeError, ValueError):
            return -97
    lists = [_as_list(l) for l in _as_list(pl)] if c["fe"] == "joint" else [_as_list(pl)]
    per_series = [[_as_int(x) for x in l] for l in lists]
    ev["labelsPerSeries"] = per_series
    ev["labelsIntegral"] = all(v > -90 for l in per_series for v in l)
    ev["K"], ev["W"] = int(res.num_clusters), int(res.window_size)
    ev["mrfShapes"] = [list(np.asarray(m).shape) for m in res.markov_random_fields]
    ev["mrfDigs"] = [proj.dig(m) for m in res.markov_random_fields]
    ev["costDig"] = proj.dig(res.label_assignment_cost)
    fm = rec.final_model
    data = rec.data
    ev["modelLabels"] = proj.labels_of(fm)
    ev["modelMrfDigs"] = [proj.dig(cl.train_inverse) for cl in fm.clusters]
    ev["modelMeanDigs"] = [proj.dig(cl.stacked_data_mean) for cl in fm.clusters]
    ev["modelCovDigs"] = [proj.dig(cl.empirical_covariance) for cl in fm.clusters]
    ev["modelCostDig"] = proj.dig(fm.label_assignment_cost)
    labels = ev["modelLabels"]
    T = len(labels)
    # ---- C06 accounting, in limbs
    all_ll = [float(x) for x in res.all_log_likelihood]
    cl_ll = rec.final_cluster_ll
    floats = all_ll + [float(res.overall_log_likelihood), float(res.label_assignment_cost)] + \
        [float(x) for x in res.cluster_log_likelihood_mean] + [float(x) for x in res.cluster_log_likelihood_median]
    finite = all(math.isfinite(v) for v in floats + [float(res.overall_log_likelihood_mean),
                                                      float(res.overall_log_likelihood_median),
                                                      float(res.bayesian_information_criterion)])
    ev["allFinite"] = finite
    ev["bicFinite"] = math.isfinite(float(res.bayesian_information_criterion))
    ev["nAll"] = len(all_ll)
    ev["clusterLens"] = [len(x) for x in cl_ll]
    beta = c["beta"]
    bcaller = rec.hdr.get("_beta_caller")
    bp = [float(v) for v in (np.zeros(T) + np.asarray(bcaller, dtype=np.float64))]   # per-pair cost as the caller gave it
    ev["acctOk"] = (obs.o9_accounting(res, labels, K, float(np.asarray(bcaller).ravel()[0]))
                    if c["fe"] == "single" and np.ndim(bcaller) == 0 else "inc")
    if finite and not c.get("big"):
        s = proj.pick_scale(floats + [beta] + bp, n_terms=2 * T + 8)
        ev["scale"] = s
        ev["allLL"] = _limbs(all_ll, s)
        ev["clusterLL"] = [_limbs(x, s) for x in cl_ll]
        ev["sumLL"] = proj.limb(res.overall_log_likelihood, s)
        ev["meanLL"] = proj.limb(res.overall_log_likelihood_mean, s)
        ev["medianLL"] = proj.limb(res.overall_log_likelihood_median, s)
        ev["clusterMean"] = _limbs(res.cluster_log_likelihood_mean, s)
        ev["clusterMedian"] = _limbs(res.cluster_log_likelihood_median, s)
        ev["cost"] = proj.limb(res.label_assignment_cost, s)
        ev["betaL"] = proj.limb(beta, s)
        ev["betaPairsL"] = [proj.limb(v, s) for v in bp[:max(T - 1, 0)]]
        ev["slack"] = 8 * T + 64
    # ---- C05: every per-point value is the log-density of that point under its own cluster
    o7 = []
    for k in range(K):
        idx = [p for p, l in enumerate(labels) if l == k]
        vals = cl_ll[k] if k < len(cl_ll) else []
        if not idx:
            o7.append("empty")
            continue
        if len(vals) != len(idx):
            o7.append("len")
            continue
        o7.append(obs.o7_ll(vals, data[idx], fm.clusters[k].stacked_data_mean, fm.clusters[k].train_inverse))
    ev["o7final"] = o7
    ev["o7result"] = obs.o7_result(all_ll, res.overall_log_likelihood, res.overall_log_likelihood_mean,
                                   res.overall_log_likelihood_median, data, labels,
                                   [cl.stacked_data_mean for cl in fm.clusters],
                                   [cl.train_inverse for cl in fm.clusters])
    ev["o2final"] = [obs.o2_spd(cl.train_inverse, cl.log_determinant) for cl in fm.clusters]
    # ---- C16: BIC by definition
    thetas = [np.asarray(cl.train_inverse) for cl in fm.clusters]
    covs = [np.atleast_2d(np.asarray(cl.empirical_covariance)) for cl in fm.clusters]
    try:
        bic, P, counts, mag = obs.bic_definition(labels, thetas, covs)
        got = float(res.bayesian_information_criterion)
        ev["paramCount"] = counts
        ev["bicP"] = P
        ev["bicOk"] = "ok" if (math.isfinite(got) and abs(got - bic) <= 1e-9 * (1 + mag)) else \
            ("inc" if not math.isfinite(bic) else "bad")
    except Exception:                                        # pylint: disable=broad-except
        ev["bicOk"] = "inc"
        ev["paramCount"] = []
        ev["bicP"] = -1
    # ---- C17: Calinski-Harabasz by definition (and the recorded scalar-centre deviation)
    got = float(res.calinski_harabasz_index)
    nonempty = all(labels.count(k) > 0 for k in range(K))
    ev["allNonEmpty"] = nonempty
    if nonempty and K >= 2:
        want = obs.ch_definition(data, labels, K, "column")
        dev = obs.ch_definition(data, labels, K, "scalar")

        def close(a, b):
            return math.isfinite(a) and math.isfinite(b) and abs(a - b) <= 1e-9 * (abs(b) + 1e-300)
        ev["chOk"] = "ok" if close(got, want) else ("inc" if not math.isfinite(want) else "bad")
        ev["chScalarCentre"] = close(got, dev)
        colmeans = data.mean(axis=0)
        ev["columnMeansEqual"] = bool(np.allclose(colmeans, colmeans.mean(), rtol=1e-12, atol=0))
    else:
        ev["chOk"], ev["chScalarCentre"], ev["columnMeansEqual"] = "inc", False, False
    return ev


def run_many(configs, fault_plans=None, workers=None):
    """Execute configurations in parallel (non-daemonic workers: the library opens its own pool)."""
    fault_plans = fault_plans or [None] * len(configs)
    return common.pmap(_run_one, list(zip(configs, fault_plans)), workers=workers)


def _run_one(job):
    c, plan = job
    try:
        return traced_run(c, plan)
    except BaseException as ex:                              # machinery problem inside the driver
        return {"hdr": {"id": c.get("id"), "cfg": c}, "events": [],
                "driver_error": f"{type(ex).__name__}: {ex}\n{traceback.format_exc()[-2000:]}"}


def tlc_view(tr):
    """The trace as TLC sees it: integers, booleans, strings and arrays/records of those only."""
    def clean(o):
        if isinstance(o, float):
            return "f:" + repr(o)
        if isinstance(o, dict):
            return {k: clean(v) for k, v in o.items() if k not in ("cfg", "tb", "kw")}
        if isinstance(o, (list, tuple)):
            return [clean(v) for v in o]
        if o is None:
            return "none"
        return o
    hdr = clean(tr["hdr"])
    hdr.setdefault("fault", {"kind": "none"})
    hdr.setdefault("timeLimitMs", 600000)
    hdr.setdefault("faultFired", False)
    hdr["outcome"] = tr["events"][-1]["ev"] if tr["events"] else "none"
    hdr["betaZero"] = float(tr["hdr"]["cfg"]["beta"]) == 0.0
    return {"hdr": hdr, "events": clean(tr["events"])}
