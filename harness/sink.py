"""The hook sink: receives live objects from fast_ticc._verif_hooks.emit at linearization points and
turns them, synchronously, into the abstract events the TLA+ trace specifications consume.
Only the projection kinds of DESIGN 4.3 are used (identity, digests, quantisation, observation
predicates).  Events of forked pool workers are appended to <tracedir>/w<pid>.ndjson."""
import json
import os
import time

import numpy as np

from . import obs, proj


class Recorder:
    def __init__(self, hdr, tracedir, sample_admm=False):
        self.hdr = hdr
        self.tracedir = tracedir
        self.main_pid = os.getpid()
        self.events = []
        self.cur = None              # phase in progress
        self.pending_relabel = None
        self.submits = []
        self.gathers = []
        self.thetas = []
        self.data = None
        self.wseq = 0
        self.sample_admm = sample_admm
        self.final_model = None
        self.relabel_count = 0

    # ------------------------------------------------------------------ dispatch
    def __call__(self, event, f):
        if os.getpid() != self.main_pid:
            return self.worker(event, f)
        h = getattr(self, "on_" + event, None)
        if h is not None:
            h(f)
        return None

    def add(self, ev):
        self.events.append(ev)

    # ------------------------------------------------------------------ worker side
    def worker(self, event, f):
        if event not in ("admm_enter", "admm_exit"):
            return
        self.wseq += 1
        rec = {"ev": event, "pid": os.getpid(), "seq": self.wseq,
               "covDig": proj.dig(f["covariance"]), "lamDig": proj.val_dig(f["args"].sparsity_weight)}
        if event == "admm_exit":
            rec.update({"thetaDig": proj.dig(f["x"]), "iterations": int(f["iterations"]),
                        "converged": bool(f["converged"])})
        with open(os.path.join(self.tracedir, f"w{os.getpid()}.ndjson"), "a") as fh:
            fh.write(json.dumps(rec) + "\n")

    # in-process solver calls (no pool) land here too
    def on_admm_enter(self, f):
        self.worker("admm_enter", f)

    def on_admm_exit(self, f):
        self.worker("admm_exit", f)

    # ------------------------------------------------------------------ front ends
    def _args(self, a):
        return {"K": int(a.num_clusters), "W": int(a.window_size), "limit": int(a.iteration_limit),
                "m": int(a.min_cluster_size), "biased": bool(a.biased_covariance),
                "lamDig": proj.val_dig(a.sparsity_weight), "betaDig": proj.val_dig(a.label_switching_cost),
                "epsDig": proj.val_dig(a.min_meaningful_covariance), "P": int(a.num_processors)}

    def on_single(self, f):
        self.add({"ev": "front", "fe": "single", "args": self._args(f["args"]),
                  "stackedDig": proj.dig(f["stacked"]), "rows": int(f["stacked"].shape[0])})

    def on_joint(self, f):
        tpl = [int(v) if float(v) == int(v) else -7 for v in np.asarray(f["template"]).ravel()]
        bm = np.asarray(f["beta_masked"], dtype=np.float64).ravel()
        self.add({"ev": "front", "fe": "joint", "args": self._args(f["args"]),
                  "stackedDig": proj.dig(f["stacked"]), "rows": int(f["stacked"].shape[0]),
                  "sizes": [int(x) for x in f["sizes"]], "template": tpl,
                  "maskedZeroAt": [int(i) for i in np.nonzero(bm == 0)[0]],
                  "passedBetaDig": proj.val_dig(f["args"].label_switching_cost),
                  "maskedBetaDig": proj.val_dig(bm)})

    # ------------------------------------------------------------------ main loop
    def on_init(self, f):
        self.data = f["data"]
        m = f["model"]
        self.add({"ev": "init", "labels": proj.labels_of(m), "members": proj.members_of(m),
                  "K": len(m.clusters), "T": int(self.data.shape[0])})

    def on_pool_open(self, f):
        pool = f["pool"]
        self.pool = pool
        self.add({"ev": "pool_open", "nproc": len(getattr(pool, "_pool", []) or [])})

    def on_round_begin(self, f):
        self.add({"ev": "round_begin", "round": int(f["round"])})

    def on_phase_begin(self, f):
        m = f["model"]
        self.cur = {"name": f["name"], "round": int(f["round"]), "in": m,
                    "in_dig": proj.model_digest(m), "in_proj": proj.model_proj(m)}
        self.submits, self.gathers, self.thetas = [], [], []

    def on_submit(self, f):
        a, kw = f["args"], f["kwargs"]
        self.submits.append({"k": len(self.submits), "covDig": proj.dig(a[0]), "lamDig": proj.val_dig(a[1]),
                             "W": int(a[2]), "N": int(a[3]),
                             "clusterCovDig": proj.dig(f["cluster"].empirical_covariance),
                             "kw": {k: (v if isinstance(v, (int, float, bool)) or v is None else repr(v))
                                    for k, v in sorted(kw.items())}})
        self.add(dict(self.submits[-1], ev="submit", round=self.cur["round"] if self.cur else -1))

    def on_gather(self, f):
        th = np.array(f["theta"], copy=True)
        self.thetas.append(th)
        self.gathers.append({"k": len(self.gathers), "thetaDig": proj.dig(th)})
        self.add(dict(self.gathers[-1], ev="gather", round=self.cur["round"] if self.cur else -1))

    def on_relabel(self, f):
        self.pending_relabel = f

    def on_phase_end(self, f):
        cur, out = self.cur, f["model"]
        self.cur = None
        ev = {"ev": "phase", "name": cur["name"], "round": cur["round"],
              "in_same": proj.model_digest(cur["in"]) == cur["in_dig"],
              "same_object": out is cur["in"], "out": proj.model_proj(out)}
        name = cur["name"]
        K = len(out.clusters)
        data = self.data
        if name == "repopulate":
            cin = cur["in"].clusters
            spread = []
            for c in cin:
                try:
                    spread.append(float(np.linalg.norm(c.computed_covariance)))
                except Exception:                        # pylint: disable=broad-except
                    spread.append(float("nan"))
            ev["before"] = cur["in_proj"]["labels"]
            ev["rank"] = sorted(range(K), key=lambda i: (-spread[i], i))
            ev["spread_ties"] = len(set(spread)) != len(spread)
        elif name == "statistics":
            labs = ev["out"]["labels"]
            o1 = []
            for k in range(K):
                idx = [p for p, l in enumerate(labs) if l == k]
                try:
                    o1.append(obs.o1_stats(out.clusters[k], data, idx, self.hdr["biased"]))
                except Exception as ex:                  # pylint: disable=broad-except
                    o1.append("bad")
            ev["o1"] = o1
            ev["sizes"] = [labs.count(k) for k in range(K)]
        elif name == "optimize":
            eps = self.hdr["eps"]
            ev["o2"] = [obs.o2_spd(c.train_inverse, c.log_determinant) for c in out.clusters]
            ev["o8"] = [obs.o8_floor(out.clusters[k].train_inverse, self.thetas[k], eps)
                        if k < len(self.thetas) else "bad" for k in range(K)]
            ev["nsubmit"], ev["ngather"] = len(self.submits), len(self.gathers)
        elif name == "relabel":
            rl = self.pending_relabel
            self.pending_relabel = None
            if rl is not None:
                ev.update(self._relabel_fields(rl))
        self.add(ev)

    def _relabel_fields(self, rl):
        """Quantised cost table + the beta actually handed to the kernel + O7 for the table."""
        table = np.asarray(rl["cost_table"], dtype=np.float64)
        T, K = table.shape
        model = rl["model"]
        beta = rl["beta"]
        bvec = (np.zeros(T) + np.asarray(beta, dtype=np.float64)) if np.ndim(beta) <= 1 else None
        out = {"scoredMrf": [proj.dig(c.train_inverse) for c in model.clusters],
               "scoredMean": [proj.dig(c.stacked_data_mean) for c in model.clusters],
               "cacheOk": all(proj.dig(c.inverse_covariance) == proj.dig(c.train_inverse)
                              for c in model.clusters),
               "rlabels": [int(x) for x in rl["labels"]],
               "betaForm": "vector" if np.ndim(beta) == 1 else "scalar",
               "betaDig": proj.val_dig(beta),
               "betaZeroAt": [int(i) for i in np.nonzero(bvec[:-1] == 0)[0]] if bvec is not None and T > 1 else [],
               "betaAllEqual": bool(bvec is not None and np.all(bvec == bvec[0]))}
        # O7: the table is minus the Gaussian log-density under (mean, MRF) of each cluster
        o7 = []
        for k, c in enumerate(model.clusters):
            try:
                o7.append(obs.o7_ll(-table[:, k], rl["data"], c.stacked_data_mean, c.train_inverse))
            except Exception:                            # pylint: disable=broad-except
                o7.append("bad")
        out["o7"] = o7
        finite = bool(np.isfinite(table).all() and np.isfinite(float(rl["reported"])))
        out["finite"] = finite
        self.relabel_count += 1
        if finite and bvec is not None:
            # shift each row by its minimum (does not change which sequences are optimal), cap entries
            # that no optimal sequence can use (see DESIGN 6/C01), quantise into limbs
            s = proj.pick_scale(list(table.ravel()) + list(bvec) + [float(rl["reported"])], n_terms=4 * T + 8)
            q = [[proj.to_int(v, s) for v in row] for row in table]
            bq = [proj.to_int(v, s) for v in bvec]
            rq = proj.to_int(float(rl["reported"]), s)
            rowmin = [min(r) for r in q]
            cap = 2 * max(bq + [0]) + max(1 << 12, 8 * T + 64)
            qn = [[min(v - m, cap) for v in r] for r, m in zip(q, rowmin)]
            capped = sum(1 for r, m in zip(q, rowmin) for v in r if v - m > cap)
            out.update({"scale": s, "costL": [[proj.limb_of_int(v) for v in r] for r in qn],
                        "betaL": [proj.limb_of_int(v) for v in bq[:max(T - 1, 0)]],
                        "reportedL": proj.limb_of_int(rq - sum(rowmin)),
                        "slack": 4 * T + 16, "capped": capped, "capMargin": cap - 2 * max(bq + [0])})
        return out

    def on_converged(self, f):
        self.add({"ev": "converged", "round": int(f["round"])})

    def on_loop_exit(self, f):
        self.add({"ev": "loop_exit", "round": int(f["round"])})

    def on_pool_closed(self, f):
        pool = f["pool"]
        alive = 0
        for p in list(getattr(pool, "_pool", []) or []):
            try:
                alive += 1 if p.is_alive() else 0
            except Exception:                            # pylint: disable=broad-except
                pass
        self.add({"ev": "pool_closed", "alive": alive})

    def on_final(self, f):
        self.final_model = f["model"]
        self.final_cluster_ll = [list(map(float, x)) for x in f["cluster_log_likelihood"]]
        self.add({"ev": "final", "model": proj.model_proj(f["model"])})
