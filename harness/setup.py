"""setup_cmd: parse every specification, byte-compile the harness, smoke-test the guarded hooks."""
import compileall
import glob
import os
import subprocess
import sys

from . import common, tlc


def main():
    bad = 0
    mods = sorted(glob.glob(os.path.join(common.SPEC, "*.tla")))
    import concurrent.futures as cf
    with cf.ThreadPoolExecutor(max_workers=8) as ex:
        for path, (ok, out) in zip(mods, ex.map(tlc.sany, mods)):
            if not ok:
                bad += 1
                print(f"SANY failed: {path}\n{out[-1500:]}")
    print(f"setup: {len(mods)} TLA+ modules parsed, {bad} failed")
    if not compileall.compile_dir(os.path.join(common.VERIF, "harness"), quiet=1):
        bad += 1
    # hooks smoke: with the guard off nothing is emitted; with it on the events arrive
    code = ("import sys; sys.path.insert(0, %r); from fast_ticc import _verif_hooks as h; ev=[]; "
            "h.install_sink(lambda e,f: ev.append(e)); h.emit('x'); print(len(ev))" % common.repo_src())
    for guard, expect in (("", "0"), ("1", "1")):
        env = dict(os.environ)
        env.pop("FAST_TICC_VERIF", None)
        if guard:
            env["FAST_TICC_VERIF"] = guard
        p = subprocess.run([common.PY, "-c", code], env=env, capture_output=True, text=True)
        if p.stdout.strip() != expect:
            bad += 1
            print(f"hook smoke failed (guard={guard!r}): {p.stdout} {p.stderr[-500:]}")
    print("setup:", "ok" if not bad else f"{bad} problem(s)")
    return 0 if not bad else 2
