"""Direction specification -> implementation for the main loop: behaviours of TiccLoop (TLC -simulate on the
MC_TiccLoop_script* configurations) and exhaustively enumerated small label scripts are replayed into the REAL
loop (harness/scripted.py); the recorded traces are then validated against TraceTiccLoop like any other run."""
import glob
import itertools
import os
import random
import re

from . import common, corpus, runs, scripted, tlc, tracecheck

SIM_CONFIGS = ("MC_TiccLoop_scriptA.cfg", "MC_TiccLoop_scriptB.cfg", "MC_TiccLoop_scriptC.cfg")
_STATE = re.compile(r"^STATE_\d+ ==", re.M)


def parse_behaviour(text):
    """One TLC -simulate behaviour file -> (cfg, init labels, [labels produced by each Relabel step])."""
    states = []
    for chunk in _STATE.split(text)[1:]:
        pc = re.search(r'/\\ pc = "(\w+)"', chunk).group(1)
        lab = re.search(r"/\\ labels = <<([^>]*)>>", chunk).group(1)
        states.append((pc, [int(x) for x in lab.split(",")] if lab.strip() else []))
    cfgm = re.search(r"/\\ cfg = \[([^\]]*)\]", text).group(1)
    cfg = {k.strip(): int(v) for k, v in (kv.split("|->") for kv in cfgm.split(","))}
    init = next((lab for _, lab in states if lab), None)
    relabels = [b[1] for a, b in zip(states, states[1:]) if a[0] == "relabel" and b[0] == "decide"]
    return cfg, init, relabels


def tlc_scripts(num, seedv, rep=None):
    """Label scripts from `num` random behaviours of each script configuration of MC_TiccLoop."""
    out = []
    for ci, cfgname in enumerate(SIM_CONFIGS):
        d = common.scratch("sim-")
        try:
            res = tlc.run("MC_TiccLoop", cfgname, workers=1, simulate=f"file={d}/b,num={num}", depth=100,
                          seedv=seedv * 31 + ci, label=f"MC_TiccLoop/{cfgname} -simulate num={num}")
            if rep is not None:
                rep.add_tlc(res)
            files = sorted(glob.glob(os.path.join(d, "b_*")))
            if len(files) < num:
                raise common.MachineryError(f"TLC -simulate wrote {len(files)} behaviours of {cfgname}, expected {num}")
            for f in files:
                with open(f) as fh:
                    cfg, init, relabels = parse_behaviour(fh.read())
                if init is None or not relabels:
                    continue
                out.append((cfg, init, relabels, "tlc:" + cfgname))
        finally:
            common.rm(d)
    return out


def enumerated_scripts(T, K, limit, m):
    """EVERY script of the given size: all initial labellings x all sequences of `limit` relabellings."""
    labs = list(itertools.product(range(K), repeat=T))
    cfg = {"T": T, "K": K, "limit": limit, "m": m}
    for init in labs:
        for rel in itertools.product(labs, repeat=limit):
            yield (cfg, list(init), [list(r) for r in rel], f"all:T{T}K{K}L{limit}m{m}")


def build(tier):
    seedv = common.seed()
    rng = random.Random(seedv * 7919 + 5)
    n_sim = 70 if tier == "quick" else 1500
    scr = tlc_scripts(n_sim, seedv)
    if tier == "quick":
        full = list(enumerated_scripts(3, 2, 2, 1))                       # 512
        scr += rng.sample(full, 160)
        # scripts aimed at the stopping rule: repeats, permuted repeats (same multiset, other sequence), 2-cycles
        labs4 = list(itertools.product(range(2), repeat=4))
        for _ in range(60):
            a, b = list(rng.choice(labs4)), list(rng.choice(labs4))
            perm = a[:]
            rng.shuffle(perm)
            scr.append(({"T": 4, "K": 2, "limit": 4, "m": 1}, list(rng.choice(labs4)),
                        rng.choice([[a, a], [a, perm, perm], [a, b, a, b], [a, b, b], [a, perm, a, a]]), "aimed"))
        # ... and at the donor rule: K = 3, m = 2, six points: a refill is due and nobody holds 2m = 4 points
        for sizes in ([1, 2, 3], [0, 3, 3], [3, 1, 2], [2, 3, 1], [0, 2, 4], [1, 1, 4], [1, 0, 5]):
            lab = [k for k, n in enumerate(sizes) for _ in range(n)]
            rng.shuffle(lab)
            scr.append(({"T": 6, "K": 3, "limit": 3, "m": 2}, [0, 0, 1, 1, 2, 2], [lab, lab, lab], "aimed-donor"))
        # ... with a donor that could give once or twice but not as often as needed (K = 4, m = 2: three clusters are
        # short, the only donor holds 6 or 7 >= 3m points, capacity 2 < 3): the shortage appears part way through
        for sizes in ([6, 0, 0, 0], [0, 7, 0, 0], [0, 0, 6, 1], [1, 0, 0, 6], [7, 0, 1, 0]):
            lab = [k for k, n in enumerate(sizes) for _ in range(n)]
            rng.shuffle(lab)
            init = [i % 4 for i in range(len(lab))]
            scr.append(({"T": len(lab), "K": 4, "limit": 3, "m": 2}, init, [lab, lab, lab], "aimed-donor-partial"))
    else:
        scr += list(enumerated_scripts(3, 2, 3, 1))                       # 4 096
        scr += list(enumerated_scripts(4, 2, 2, 1))                       # 4 096
        scr += list(enumerated_scripts(4, 2, 2, 2))                       # 4 096 (m = 2: donor shortage is common)
        scr += rng.sample(list(enumerated_scripts(3, 3, 2, 1)), 3000)
    cfgs = []
    for i, (cfg, init, relabels, origin) in enumerate(scr):
        c = scripted.config(900000 + i, cfg["T"], cfg["K"], cfg["limit"], cfg["m"], init, relabels, rng_seed=rng.randrange(10 ** 6),
                            P=2 if i % 10 == 0 else 1, mp=(i % 40 == 0))
        c["expect"] = "scripted"
        c["origin"] = origin
        cfgs.append(c)
    trs = runs.run_many(cfgs)
    broken = [t for t in trs if not t["events"] or t["events"][-1]["ev"] not in ("return", "raise")]
    if broken:
        raise common.MachineryError(f"scripted driver: {len(broken)} run(s) produced no outcome: {broken[0]['hdr'].get('error', '')[:300]}")
    return trs


def get(tier):
    return corpus.cached(f"scripts-{tier}-{common.seed()}", lambda: build(tier))


def followed_script(t):
    """Did the real loop relabel exactly as scripted (the substitution worked)?"""
    rl = [e["out"]["labels"] for e in t["events"] if e["ev"] == "phase" and e["name"] == "relabel"]
    want = t["hdr"]["cfg"]["script"]["relabels"]
    return all(a == want[min(i, len(want) - 1)] for i, a in enumerate(rl))


def regimes(t):
    r = set()
    ev = t["events"]
    last = ev[-1]
    if last["ev"] == "raise":
        r.add("scripted_raise:" + last["type"])
        return r
    rounds = sum(1 for e in ev if e["ev"] == "round_begin")
    if any(e["ev"] == "converged" for e in ev):
        r.add(f"scripted_converged_in_round_{min(rounds, 4)}")
    else:
        r.add("scripted_limit_reached")
    reps = [e for e in ev if e["ev"] == "phase" and e["name"] == "repopulate"]
    if any(not e.get("same_object", True) for e in reps):
        r.add("scripted_repopulated")
    rl = [e["out"]["labels"] for e in ev if e["ev"] == "phase" and e["name"] == "relabel"]
    for a, b in zip(rl, rl[1:]):
        if a != b and sorted(a) == sorted(b):
            r.add("scripted_consecutive_labellings_equal_as_multisets_only")
    for a, b in zip(rl, rl[2:]):
        if a == b:
            r.add("scripted_two_cycle")
    return r


NEED = ("scripted_converged_in_round_2", "scripted_converged_in_round_3", "scripted_limit_reached", "scripted_repopulated",
        "scripted_raise:RuntimeError", "scripted_consecutive_labellings_equal_as_multisets_only", "scripted_two_cycle")


def validate(rep, pid, tier, need=NEED):
    """Validate every scripted run against TraceTiccLoop with Enforced = {pid} (+ the machinery clause)."""
    trs = get(tier)
    bad = [t for t in trs if not followed_script(t)]
    if bad:
        raise common.MachineryError(f"scripted driver: {len(bad)} run(s) did not relabel as scripted "
                                    f"(first: {bad[0]['hdr']['cfg']['script']})")
    views = [runs.tlc_view(t) for t in trs]
    devs = common.known_deviations(pid)
    kd = "{" + ", ".join(f'"{d}"' for d in devs) + "}"
    accepted, failures, results = tracecheck.validate(
        "TraceTiccLoop", views, {pid, "MACH"}, spec="TraceSpec",
        extra_constants={"KnownDeviations": kd, "FixedCode": "TRUE", "Configs": "{}"})
    for r in results:
        rep.add_tlc(r)
    rep.cov["evaluations"] += sum(len(v["events"]) for v in views)
    rep.cov["traces_validated_against_impl"] += len(accepted)
    mach = [(gi, fl) for gi, fl in failures.items() if any(f[0] == "MACH" for f in fl)]
    if mach:
        gi, fl = mach[0]
        raise common.MachineryError(f"scripted driver: {len(mach)} run(s) raised where the model has no failing step "
                                    f"(first: {trs[gi]['hdr']['cfg']['script']}: {trs[gi]['events'][-1].get('type')}: "
                                    f"{trs[gi]['events'][-1].get('message', '')[:200]})")
    for gi, fl in sorted(failures.items()):
        t = trs[gi]
        rep.violation(fl[0][1], {"cfg": t["hdr"]["cfg"], "clauses": fl, "where": corpus.failing_event(views[gi], fl),
                                 "how_to_rerun": "harness.runs.traced_run(cfg) (scripted run) then validate with TraceTiccLoop"},
                      f"scripted run id={t['hdr']['id']} origin={t['hdr']['cfg'].get('origin')} script={t['hdr']['cfg']['script']}")
    seen = set()
    for t in trs:
        for r in regimes(t):
            rep.regime(r)
            seen.add(r)
    rep.notes["scripted_runs"] = len(trs)
    rep.notes["scripted_runs_from_tlc_behaviours"] = sum(1 for t in trs if str(t["hdr"]["cfg"].get("origin", "")).startswith("tlc:"))
    missing = [n for n in need if n not in seen]
    if missing and not failures:
        raise common.MachineryError(f"{pid}: the scripted runs did not enter required regimes {missing}")
    return accepted, failures
