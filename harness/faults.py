"""Fault / delay injection WITHOUT touching the repository: module-level wrappers substituted for
the public optimiser entry point (fast_ticc.admm.admm_optimize_theta, which pool workers receive by
reference) and for the phase functions the main loop looks up as module attributes."""
import hashlib
import random
import time

from . import proj

PLAN = None
DELAY_SEED = None
MARKER = None          # file touched (by whichever process raises) when the injected fault fires
_SAVED = {}
_COUNTS = {}


class InjectedFault(RuntimeError):
    """The failure the harness injects; must arrive at the caller unchanged."""


def _orig_optimizer():
    from fast_ticc.admm import front_end
    return front_end.admm_optimize_theta


def _fired():
    if MARKER:
        with open(MARKER, "a") as fh:
            fh.write("fired\n")


def optimizer_wrapper(empirical_covariance, *args, **kwargs):
    """Runs inside the pool worker."""
    d = proj.dig(empirical_covariance)
    if DELAY_SEED is not None:
        h = int(hashlib.sha256(f"{DELAY_SEED}:{d}".encode()).hexdigest()[:8], 16)
        time.sleep((h % 1000) / 1000.0 * 0.06)
    if PLAN and PLAN.get("kind") == "task" and PLAN.get("covDig") == d:
        _fired()
        if PLAN.get("exc") == "ValueError":
            raise ValueError("injected task failure")
        if PLAN.get("exc") == "hard_exit":
            import os
            os._exit(3)
        raise InjectedFault("injected task failure")
    return _orig_optimizer()(empirical_covariance, *args, **kwargs)


def _phase_wrapper(name, orig):
    def wrapped(*a, **kw):
        n = _COUNTS.get(name, 0)
        _COUNTS[name] = n + 1
        if PLAN and PLAN.get("kind") == "phase" and PLAN.get("phase") == name and PLAN.get("call") == n:
            _fired()
            raise InjectedFault(f"injected failure in phase {name} call {n}")
        return orig(*a, **kw)
    return wrapped


PHASES = {
    "repopulate": ("fast_ticc.cluster_maintenance", "repopulate_empty_clusters"),
    "statistics": ("fast_ticc.cluster_maintenance", "update_all_cluster_statistics"),
    "optimize": ("fast_ticc.graphical_lasso", "optimize_markov_random_fields"),
    "relabel": ("fast_ticc.cluster_label_assignment", "predict_cluster_labels"),
}


def install(plan, delay_seed=None, marker=None):
    global PLAN, DELAY_SEED, MARKER
    import importlib
    uninstall()
    PLAN, DELAY_SEED, MARKER = plan, delay_seed, marker
    _COUNTS.clear()
    if plan is None and delay_seed is None:
        return
    import fast_ticc.admm as admm_pkg
    _SAVED[("fast_ticc.admm", "admm_optimize_theta")] = admm_pkg.admm_optimize_theta
    admm_pkg.admm_optimize_theta = optimizer_wrapper
    if plan and plan.get("kind") == "phase":
        modname, attr = PHASES[plan["phase"]]
        mod = importlib.import_module(modname)
        _SAVED[(modname, attr)] = getattr(mod, attr)
        setattr(mod, attr, _phase_wrapper(plan["phase"], getattr(mod, attr)))


def uninstall():
    global PLAN, DELAY_SEED, MARKER
    import importlib
    for (modname, attr), orig in list(_SAVED.items()):
        setattr(importlib.import_module(modname), attr, orig)
    _SAVED.clear()
    PLAN, DELAY_SEED, MARKER = None, None, None
