"""Run a batch of kernel cases through harness.kernel_worker in a given execution mode."""
import json
import os
import subprocess

from . import common


def run_cases(cases, mode="jit", threads=None, timeout=1800):
    d = common.scratch("kw-")
    try:
        fin, fout = os.path.join(d, "in.json"), os.path.join(d, "out.json")
        with open(fin, "w") as fh:
            json.dump(cases, fh)
        env = dict(os.environ)
        env["PYTHONPATH"] = common.VERIF
        env["FAST_TICC_VERIF"] = "1"
        env["PYTHONHASHSEED"] = "0"
        for v in ("OMP_NUM_THREADS", "OPENBLAS_NUM_THREADS", "MKL_NUM_THREADS"):
            env[v] = "1"
        env.pop("NUMBA_DISABLE_JIT", None)
        if mode == "nojit":
            env["NUMBA_DISABLE_JIT"] = "1"
        if threads:
            env["NUMBA_NUM_THREADS"] = str(threads)
        p = subprocess.run([common.PY, "-m", "harness.kernel_worker", mode, fin, fout],
                           cwd=common.VERIF, env=env, capture_output=True, text=True, timeout=timeout)
        if p.returncode != 0 or not os.path.exists(fout):
            raise common.MachineryError(f"kernel worker ({mode}) failed rc={p.returncode}:\n"
                                        f"{p.stdout[-2000:]}\n{p.stderr[-3000:]}")
        with open(fout) as fh:
            return json.load(fh)["results"]
    finally:
        common.rm(d)
