"""Fault-enumeration experiments (C20) and scheduling/history experiments (C14).

One experiment = one process history:   clean call A  ->  call with an injected fault F  ->  clean call B.
F must raise the original error, leave no worker and no result (TraceTiccLoop, C20 clauses); B must
reproduce A bit for bit (TraceMemo: a failed call leaves no trace in later calls)."""
import copy
import random

from . import common, runs


def base_config(rng, i, tier):
    c = runs.gen_config(rng, 1000 + i, tier)
    c.update(fe="single" if i % 2 == 0 else "joint", K=3, limit=4, m=3, eps=0, beta=2.0, beta_form="float",
             lam=0.11, lam_form="float", scale=1.0, n_regimes=3, N=2, W=2 + (i % 2), biased=False)
    c["lens"] = [70] if c["fe"] == "single" else [40, 35]
    c["hang_limit_s"] = 300        # these calls take about a second; five minutes is a hang even on an overloaded machine
    return c


def experiment(job):
    """Runs inside ONE worker process: A, F, B."""
    c, what, P, mp = job
    c = dict(c, P=P, mp=mp)
    A = runs.traced_run(dict(c, id=f"{c['id']}:A"))
    out = {"A": A, "what": what, "P": P, "mp": mp}
    if A["events"][-1]["ev"] != "return":
        out["skipped"] = "clean run did not complete"
        return out
    plan = None
    if what[0] == "task":
        r, k = what[1], what[2]
        subs = [e for e in A["events"] if e["ev"] == "submit" and e["round"] == r and e["k"] == k]
        if not subs:
            out["skipped"] = "no such task in the clean run"
            return out
        d = subs[0]["covDig"]
        earlier = [e for e in A["events"] if e["ev"] == "submit" and e["covDig"] == d
                   and (e["round"], e["k"]) < (r, k)]
        if earlier:
            out["skipped"] = "covariance digest not unique to this task"
            return out
        plan = {"kind": "task", "covDig": d, "exc": what[3] if len(what) > 3 else "InjectedFault",
                "round": r, "cluster": k}
    elif what[0] == "phase":
        _, name, call = what
        ncalls = sum(1 for e in A["events"] if e["ev"] == "phase" and e["name"] == name)
        if call >= ncalls:
            out["skipped"] = "phase not called that often in the clean run"
            return out
        plan = {"kind": "phase", "phase": name, "call": call}
    F = runs.traced_run(dict(c, id=f"{c['id']}:F"), fault_plan=plan)
    B = runs.traced_run(dict(c, id=f"{c['id']}:B"))
    out.update({"F": F, "B": B, "plan": plan})
    return out


def fault_points(A_rounds, K):
    pts = []
    for r in range(A_rounds):
        for k in range(K):
            pts.append(("task", r, k))
    pts.append(("task", 0, 0, "ValueError"))
    for name in ("statistics", "optimize", "relabel"):
        for call in range(A_rounds):
            pts.append(("phase", name, call))
    for call in range(max(A_rounds - 1, 0)):
        pts.append(("phase", "repopulate", call))
    return pts


def build_fault_corpus(tier):
    import concurrent.futures as cf
    import multiprocessing as mp
    rng = random.Random(common.seed() * 2654435761 % (1 << 31) + 20)
    nbase = 1 if tier == "quick" else 4
    # candidates: keep those whose clean run completes with at least 3 rounds (so that faults in later
    # rounds exist) - the selection itself is part of the seeded, reproducible driver
    cands = []
    for i in range(16 if tier == "quick" else 48):
        c = base_config(rng, i, tier)
        c["beta"] = [0.5, 1.0, 2.0, 0.0][i % 4]
        c["K"] = 3 + (i % 2)
        c["limit"] = 5
        cands.append(c)
    clean = runs.run_many(cands)
    bases = []
    for c, t in zip(cands, clean):
        if "driver_error" in t:
            raise common.MachineryError(t["driver_error"])
        rounds = sum(1 for e in t["events"] if e["ev"] == "round_begin")
        if t["events"][-1]["ev"] == "return" and rounds >= 3 and len({c2["fe"] for c2 in bases} | {c["fe"]}) > len(bases) - nbase:
            bases.append(c)
        if len(bases) >= nbase:
            break
    if not bases:
        raise common.MachineryError("no base configuration with >= 3 rounds found")
    jobs = []
    for c in bases:
        for (P, mpon) in ((1, False), (3, True)):
            for what in fault_points(3, c["K"]):
                jobs.append((c, what, P, mpon))
    exps = common.pmap(experiment, jobs)
    # donor shortage and swapped front-end inputs
    extra = []
    for i in range(2 if tier == "quick" else 8):
        c = runs.gen_config(rng, 2000 + i, tier)
        # a huge switching cost collapses the labelling onto one cluster in round 0; in round 1 the others
        # need 60 points each and nobody holds 120
        c.update(fe="single", K=3, limit=6, m=60, n_regimes=2, eps=0, lens=[90 + 7 * i], expect="donor",
                 W=2, N=2, scale=1.0, beta=1e6, beta_form="float", lam=0.11)
        extra.append(c)
    for i, how in enumerate(["list_to_single", "tuple_to_single", "generator_to_single", "array_to_joint",
                             "vector_to_joint", "wide_array_to_joint", "wide_array_to_joint"]):
        c = runs.gen_config(rng, 3000 + i, tier)
        c.update(fe="joint" if "single" in how else "single", swap=how, eps=0, scale=1.0)
        c["hang_limit_s"] = 300
        if how == "wide_array_to_joint":
            c.update(N=6 + i, W=2 + i % 2, K=2, limit=2)          # more columns than the window is long
        if "single" in how:
            c["lens"] = [50, 44]
        extra.append(c)
    # invalid arguments (beyond the three failure kinds C20 lists): whatever the library raises, it must raise
    # promptly, leave no worker and leave the caller's arrays alone
    for i, inv in enumerate(["W_gt_T", "K_gt_windows", "nan_data", "limit0", "K1", "beta_wrong_length",
                             "mismatched_columns", "lambda_nested_list", "lambda_none", "lambda_string"]):
        c = runs.gen_config(rng, 3500 + i, tier)
        c.update(eps=0, scale=1.0, invalid=inv, fe="joint" if inv == "mismatched_columns" else c["fe"])
        c["hang_limit_s"] = 300
        if inv.startswith("lambda_"):
            c.update(P=[1, 3, 2][i % 3], mp=bool(i % 2), lam_form="float")
        if c["fe"] == "joint" and len(c["lens"]) < 2:
            c["lens"] = [c["lens"][0], c["lens"][0] + 3]
        if c["fe"] == "single":
            c["lens"] = c["lens"][:1]
        if inv == "W_gt_T":
            c["lens"] = [max(1, c["W"] - 1)] * len(c["lens"])
        elif inv == "K_gt_windows":
            c["lens"] = [c["W"] + 1] * len(c["lens"])
            c["K"] = 2 * len(c["lens"]) + 3
        elif inv == "limit0":
            c["limit"] = 0
        elif inv == "K1":
            c["K"] = 1
        elif inv in ("beta_wrong_length", "lambda_wrong_shape"):
            c["beta_form"], c["lam_form"] = "float", "float"
        extra.append(c)
    extra_tr = runs.run_many(extra)
    return {"experiments": exps, "extra": extra_tr}
