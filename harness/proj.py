"""Projection from concrete library objects to the abstract state TLC sees (DESIGN 4.3).
Only: identity on ints/bools/strings, digests of bytes, fixed-point quantisation, token maps."""
import hashlib

import numpy as np


def dig(a):
    """P-dig: first 16 hex of SHA-256 over (dtype, shape, C-contiguous bytes); None -> 'none'."""
    if a is None:
        return "none"
    if isinstance(a, (list, tuple)) and not isinstance(a, np.ndarray):
        try:
            a = np.asarray(a)
        except Exception:
            return "obj:" + hashlib.sha256(repr(a).encode()).hexdigest()[:12]
    if isinstance(a, np.ndarray):
        if a.dtype == object:
            if a.shape == () and a.item() is None:
                return "none"                      # np.copy(None): what deep_copy makes of a statistic not fitted yet
            return "obj:" + hashlib.sha256(repr(a.tolist()).encode()).hexdigest()[:12]
        c = np.ascontiguousarray(a)
        return hashlib.sha256(str(c.dtype).encode() + str(c.shape).encode() + c.tobytes()).hexdigest()[:16]
    if isinstance(a, (bool, np.bool_)):
        return "b:" + str(bool(a))
    if isinstance(a, (int, np.integer)):
        return "i:" + str(int(a))
    if isinstance(a, (float, np.floating)):
        return "f:" + repr(float(a))
    return "obj:" + hashlib.sha256(repr(a).encode()).hexdigest()[:12]


def val_dig(a):
    """Digest by VALUE (form-independent): scalars and arrays are compared as float64 content."""
    if a is None:
        return "none"
    arr = np.asarray(a, dtype=np.float64)
    return hashlib.sha256(str(arr.shape).encode() + np.ascontiguousarray(arr).tobytes()).hexdigest()[:16]


def labels_of(model):
    pl = model.point_labels
    return None if pl is None else [int(x) for x in pl]


def members_of(model):
    return [[int(p) for p in c.member_points] for c in model.clusters]


def model_proj(model):
    """Abstract view of a ModelState: labelling, membership, digests of fitted statistics."""
    cl = model.clusters
    return {
        "labels": labels_of(model),
        "members": members_of(model),
        "K": len(cl),
        "mean": [dig(c.stacked_data_mean) for c in cl],
        "cov": [dig(c.empirical_covariance) for c in cl],
        "mrf": [dig(c.train_inverse) for c in cl],
        "ccov": [dig(c.computed_covariance) for c in cl],
        "cost": dig(model.label_assignment_cost),
    }


def model_digest(model, with_cache=False):
    """One digest of everything C13 says a phase must not alter in the state it was given."""
    p = model_proj(model)
    if with_cache:
        p["cache"] = [(dig(c.inverse_covariance), dig(c.log_determinant)) for c in model.clusters]
    return hashlib.sha256(repr(sorted(p.items())).encode()).hexdigest()[:16]


def quantise(x, s):
    """P-q: round(x * 2^s) as int."""
    return int(round(float(x) * (2.0 ** s)))


# ---- limb quantisation: value * 2^s as hi * 2^20 + lo (0 <= lo < 2^20), |hi| < 2^30 ----
LB = 1 << 20


def pick_scale(values, n_terms=None, bits=50, smax=40):
    """Largest s such that n_terms * max|v| * 2^s < 2^bits (so that TLC can sum n_terms values)."""
    import math
    vals = [abs(float(v)) for v in values if v == v and abs(float(v)) != float("inf")]
    m = max(vals) if vals else 1.0
    n = n_terms or max(len(vals), 1)
    if m * n == 0:
        return smax
    s = int(math.floor(bits - math.log2(m * n) - 1e-9))
    return max(min(s, smax), -200)


def to_int(x, s):
    """round(x * 2^s) as a Python int (exact: x is a float, so x*2^s is exact before rounding)."""
    from fractions import Fraction
    fx = Fraction(float(x)) * (Fraction(2) ** s)
    return int(round(fx))


def limb_of_int(n):
    hi, lo = divmod(int(n), LB)
    if not -(1 << 30) < hi < (1 << 30):
        raise OverflowError(f"limb overflow: {n}")
    return [hi, lo]


def limb(x, s):
    return limb_of_int(to_int(x, s))
