"""Numeric observation predicates O1..O9 (DESIGN 4.3): independent float64 formulas with stated
tolerances, three-valued: 'ok' | 'bad' | 'inc' (inconclusive: own error bound exceeds the test)."""
import math

import numpy as np

LN2PI = math.log(2.0 * math.pi)


def _close(a, b, rtol=1e-9):
    a = np.asarray(a, dtype=np.float64)
    b = np.asarray(b, dtype=np.float64)
    if a.shape != b.shape:
        return False
    if a.size == 0:
        return True
    scale = float(np.nanmax(np.abs(b))) if np.isfinite(b).any() else 1.0
    return bool(np.allclose(a, b, rtol=rtol, atol=rtol * max(scale, 1e-300), equal_nan=True))


def sample_stats(data, idx, biased):
    """Two-pass sample mean and covariance of data[idx] (ddof 0 if biased else 1)."""
    X = np.asarray(data, dtype=np.float64)[list(idx), :]
    n = X.shape[0]
    mu = X.sum(axis=0) / n
    Xc = X - mu
    mu = mu + Xc.sum(axis=0) / n
    Xc = X - mu
    ddof = 0 if biased else 1
    with np.errstate(all="ignore"):
        cov = (Xc.T @ Xc) / float(n - ddof) if n - ddof != 0 else np.full((X.shape[1],) * 2, np.nan)
    return mu, cov


def o1_stats(cluster, data, idx, biased):
    """O1: the cluster's mean/covariance are the sample statistics of exactly data[idx]."""
    if len(idx) == 0:
        return "inc"
    mu, cov = sample_stats(data, idx, biased)
    got_mu = np.asarray(cluster.stacked_data_mean, dtype=np.float64)
    got_cov = np.atleast_2d(np.asarray(cluster.empirical_covariance, dtype=np.float64))
    if got_cov.shape != cov.shape:
        return "bad"
    # scale-aware: covariance entries live on the scale of the data's squared spread
    spread = float(np.nanmax(np.abs(np.asarray(data)[list(idx), :] - mu))) if len(idx) else 1.0
    atol = 1e-9 * max(spread * spread, 1e-300)
    with np.errstate(all="ignore"):
        okc = np.allclose(got_cov, cov, rtol=1e-8, atol=atol, equal_nan=True)
        okm = np.allclose(got_mu, mu, rtol=1e-10, atol=1e-10 * max(float(np.max(np.abs(mu))), spread, 1e-300))
    return "ok" if (okc and okm) else "bad"


def o2_spd(theta, logdet_field=None):
    """O2: exactly symmetric, finite, positive definite; the library's own log-det field finite."""
    th = np.asarray(theta, dtype=np.float64)
    if th.ndim != 2 or th.shape[0] != th.shape[1]:
        return "bad"
    if not np.isfinite(th).all():
        return "bad"
    if not np.array_equal(th, th.T):
        return "bad"
    try:
        np.linalg.cholesky(th)
    except np.linalg.LinAlgError:
        return "bad"
    if float(np.linalg.eigvalsh(th).min()) <= 0:
        return "bad"
    if logdet_field is not None and not np.isfinite(float(logdet_field)):
        return "bad_logdet"
    return "ok"


def gauss_logpdf(X, mu, theta):
    """log N(x; mu, theta^-1) for each row of X, via slogdet + a Cholesky quadratic form."""
    X = np.atleast_2d(np.asarray(X, dtype=np.float64))
    th = np.asarray(theta, dtype=np.float64)
    nw = th.shape[0]
    sign, logdet = np.linalg.slogdet(th)
    d = X - np.asarray(mu, dtype=np.float64)
    try:
        L = np.linalg.cholesky(th)
        y = d @ L
        quad = np.einsum("ij,ij->i", y, y)
    except np.linalg.LinAlgError:
        quad = np.einsum("ij,jk,ik->i", d, th, d)
    ll = 0.5 * (logdet - quad - nw * LN2PI)
    mag = 1.0 + abs(logdet) + np.abs(quad) + nw * LN2PI
    return ll, mag, sign


def o7_ll(values, X, mu, theta, rtol=1e-9):
    """O7: values[i] is the Gaussian log-density of X[i]."""
    th = np.asarray(theta, dtype=np.float64)
    if not np.isfinite(th).all():
        return "inc"
    ll, mag, sign = gauss_logpdf(X, mu, theta)
    if sign <= 0:
        return "inc"
    v = np.asarray(values, dtype=np.float64).ravel()
    if v.shape != ll.shape:
        return "bad"
    cond = np.linalg.cond(th)
    tol = rtol * mag * max(1.0, cond * 1e-7)
    if not np.isfinite(v).all():
        return "bad"
    return "ok" if bool(np.all(np.abs(v - ll) <= tol)) else "bad"


def o7_result(all_values, total, mean, median, X, labels, mus, thetas, rtol=1e-9):
    """O7 on the RESULT: the per-point values it lists are the Gaussian log-densities of ALL labelled points (as a
    multiset: sorted and compared pairwise, which finds a matching within the tolerance whenever one exists), and the
    sum / mean / median it reports are those of exactly these densities."""
    exp, tol = [], 0.0
    for k in sorted(set(labels)):
        idx = [p for p, l in enumerate(labels) if l == k]
        th = np.asarray(thetas[k], dtype=np.float64)
        if not np.isfinite(th).all():
            return "inc"
        ll, mag, sign = gauss_logpdf(X[idx], mus[k], th)
        if sign <= 0 or not np.isfinite(ll).all():
            return "inc"
        exp.extend(float(v) for v in ll)
        tol = max(tol, float(np.max(rtol * mag * max(1.0, np.linalg.cond(th) * 1e-7))))
    v = np.sort(np.asarray(all_values, dtype=np.float64).ravel())
    e = np.sort(np.asarray(exp, dtype=np.float64))
    if v.shape != e.shape or not np.isfinite(v).all():
        return "bad"
    if not bool(np.all(np.abs(v - e) <= tol)):
        return "bad"
    n = len(e)
    ok = (abs(float(total) - float(np.sum(e))) <= tol * n and abs(float(mean) - float(np.mean(e))) <= tol
          and abs(float(median) - float(np.median(e))) <= tol)
    return "ok" if ok else "bad"


def o9_accounting(res, labels, K, beta, rtol=1e-9):
    """O9 (long single-series runs with a scalar switching cost): the accounting identities of C06 in floating point
    - one entry per labelled point; sum / mean / median of exactly those entries; per-cluster mean / median over the
    cluster's own points (0 if none); cost = -sum + beta * (number of label changes)."""
    import math
    all_ll = np.asarray([float(x) for x in res.all_log_likelihood], dtype=np.float64)
    n = len(labels)
    if len(all_ll) != n:
        return "bad"
    if not np.isfinite(all_ll).all():
        return "inc"
    mag = float(np.sum(np.abs(all_ll))) + 1.0
    tol = rtol * mag
    if abs(float(res.overall_log_likelihood) - math.fsum(all_ll)) > tol:
        return "bad"
    if abs(float(res.overall_log_likelihood_mean) - math.fsum(all_ll) / n) > tol / n + 1e-12:
        return "bad"
    if abs(float(res.overall_log_likelihood_median) - float(np.median(all_ll))) > rtol * (1.0 + float(np.max(np.abs(all_ll)))):
        return "bad"
    switches = sum(1 for a, b in zip(labels, labels[1:]) if a != b)
    if abs(float(res.label_assignment_cost) - (-math.fsum(all_ll) + float(beta) * switches)) > tol + rtol * abs(float(beta)) * switches:
        return "bad"
    # per-cluster aggregates: the result lists entries cluster by cluster (ascending id), points in order
    sizes = [labels.count(k) for k in range(K)]
    pos = 0
    for k in range(K):
        part = all_ll[pos:pos + sizes[k]]
        pos += sizes[k]
        m, md = float(res.cluster_log_likelihood_mean[k]), float(res.cluster_log_likelihood_median[k])
        if sizes[k] == 0:
            if m != 0.0 or md != 0.0:
                return "bad"
        else:
            if abs(m - math.fsum(part) / sizes[k]) > rtol * (1.0 + float(np.max(np.abs(part)))):
                return "bad"
            if abs(md - float(np.median(part))) > rtol * (1.0 + float(np.max(np.abs(part)))):
                return "bad"
    return "ok"


def floor_eps(mat, eps):
    out = np.array(mat, dtype=np.float64, copy=True)
    n, m = out.shape
    for i in range(n):
        for j in range(m):
            if -eps < out[i, j] < eps:
                out[i, j] = 0.0
    return out


def reinflate(vec, n):
    out = np.zeros((n, n))
    k = 0
    for r in range(n):
        for c in range(r, n):
            out[r, c] = vec[k]
            out[c, r] = vec[k]
            k += 1
    return out


def o8_floor(mrf, theta_vec, eps):
    """O8: the stored MRF is floor_eps(reinflate(theta)) - entries with |x| < eps zeroed, all others
    exactly what the optimiser produced."""
    mrf = np.asarray(mrf, dtype=np.float64)
    n = mrf.shape[0]
    if len(theta_vec) != n * (n + 1) // 2:
        return "bad"
    want = floor_eps(reinflate(np.asarray(theta_vec, dtype=np.float64), n), float(eps))
    return "ok" if (want.shape == mrf.shape and np.array_equal(want, mrf, equal_nan=True)) else "bad"


def bic_definition(labels, thetas, covs, threshold=2e-5):
    """P ln T - 2 sum_k (ln det Theta_k - tr(Theta_k S_k)); P adds per maximal run of equal labels the
    number of entries of that cluster's MRF with magnitude > threshold."""
    counts = [int(np.sum(np.abs(t) > threshold)) for t in thetas]
    P, last = 0, None
    for lab in labels:
        if lab != last:
            P += counts[lab]
            last = lab
    T = len(labels)
    mod = 0.0
    mag = 0.0
    for t, s in zip(thetas, covs):
        sign, ld = np.linalg.slogdet(np.asarray(t, dtype=np.float64))
        tr = float(np.trace(np.asarray(t) @ np.asarray(s)))
        mod += ld - tr
        mag += abs(ld) + abs(tr)
    return P * math.log(T) - 2.0 * mod, P, counts, mag + abs(P * math.log(T))


def ch_definition(X, labels, K, centre="column"):
    """[B/(K-1)] / [Wd/(T-K)] with the per-column centroid (centre='column'); centre='scalar' uses the
    mean of all entries (the deviation recorded as a known finding)."""
    X = np.asarray(X, dtype=np.float64)
    T = X.shape[0]
    g = X.mean(axis=0) if centre == "column" else np.full(X.shape[1], X.mean())
    B = 0.0
    Wd = 0.0
    lab = np.asarray(labels)
    for k in range(K):
        Xk = X[lab == k]
        if len(Xk) == 0:
            return float("nan")
        mk = Xk.mean(axis=0)
        B += len(Xk) * float(np.sum((mk - g) ** 2))
        Wd += float(np.sum((Xk - mk) ** 2))
    with np.errstate(all="ignore"):
        return (B / (K - 1)) / (Wd / (T - K)) if Wd != 0 and T != K else float("nan")
