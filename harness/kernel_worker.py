"""Runs kernel/helper calls of the real library in ONE execution mode and writes what happened.

usage: python -m harness.kernel_worker <mode> <in.json> <out.json>
mode: jit | nojit | nonumba   (the parent sets NUMBA_DISABLE_JIT / NUMBA_NUM_THREADS)
"""
import hashlib
import json
import sys
import traceback


def main():
    mode, fin, fout = sys.argv[1:4]
    if mode == "nonumba":
        sys.modules["numba"] = None          # makes `import numba` raise ImportError
    from harness import common
    common.use_repo()
    import numpy as np
    import fast_ticc  # noqa: F401
    from fast_ticc import cluster_label_assignment as cla, numba_guard
    assert numba_guard.NUMBA_AVAILABLE == (mode != "nonumba"), "mode selection failed"

    with open(fin) as fh:
        cases = json.load(fh)
    out = []
    for c in cases:
        try:
            out.append(HANDLERS[c["fn"]](c, np, cla))
        except Exception as ex:          # the harness decides what an exception means
            out.append({"error": type(ex).__name__, "message": str(ex)[:300],
                        "tb": traceback.format_exc()[-600:]})
    with open(fout, "w") as fh:
        json.dump({"mode": mode, "numba_available": numba_guard.NUMBA_AVAILABLE, "results": out}, fh)


def dig(a, np):
    a = np.ascontiguousarray(a)
    return hashlib.sha256(str(a.dtype).encode() + str(a.shape).encode() + a.tobytes()).hexdigest()[:16]


def mk_scalar(v, form, np):
    if form == "int":
        return int(v)
    if form == "float":
        return float(v)
    if form == "bool":
        return bool(v)
    return getattr(np, form.split(".", 1)[1])(v)


def h_assign(c, np, cla):
    s = c["scale"]
    tab64 = np.array(c["cost"], dtype=np.float64) / (2.0 ** s)
    tab = tab64.astype(getattr(np, c.get("table_dtype", "float64")))
    if not (tab.astype(np.float64) == tab64).all():
        raise RuntimeError("harness: table not exactly representable in " + c["table_dtype"])
    if c.get("big_endian"):                          # non-native byte order (what np.fromfile of a big-endian file gives)
        tab = tab.astype(tab.dtype.newbyteorder(">"))
    if c.get("order") == "F":
        tab = np.asfortranarray(tab)
    elif c.get("order") == "S":                      # a strided (non-contiguous) view of a larger array
        big = np.zeros((2 * tab.shape[0], 3 * tab.shape[1]), dtype=tab.dtype)
        big[::2, 1::3] = tab
        tab = big[::2, 1::3]
    if c["beta_form"] == "vector":
        b64 = np.array(c["beta"], dtype=np.float64) / (2.0 ** s)
        beta = b64.astype(getattr(np, c.get("vector_dtype", "float64")))
        if not (beta.astype(np.float64) == b64).all():
            raise RuntimeError("harness: vector beta not exactly representable in " + c["vector_dtype"])
        if c.get("big_endian"):
            beta = beta.astype(beta.dtype.newbyteorder(">"))
    elif c["beta_form"] == "array1":                 # a one-element array: broadcast like the scalar it holds
        beta = np.array([c["beta"] / (2.0 ** s)], dtype=np.float64)
    else:
        beta = mk_scalar(c["beta"] / (2.0 ** s) if c["beta_form"] != "int" else c["beta"] // (2 ** s),
                         c["beta_form"], np)
    if c.get("readonly"):
        tab.setflags(write=False)
        if hasattr(beta, "setflags"):
            beta.setflags(write=False)
    d0 = (dig(tab, np), dig(np.asarray(beta), np))
    labels, reported = cla.assign_point_cluster_labels(tab, beta)
    d1 = (dig(tab, np), dig(np.asarray(beta), np))
    labs = [int(x) for x in labels]
    integral = all(float(x) == int(x) for x in labels)
    rep = float(reported) * (2.0 ** s)
    return {"labels": labs, "labels_integral": integral, "reported_scaled": rep,
            "reported_exact": rep == int(rep) if rep == rep and abs(rep) < 2 ** 62 else False,
            "reported": repr(float(reported)), "args_unchanged": d0 == d1, "n": len(labs)}


def h_lltable(c, np, cla):
    """The likelihood table function and the per-point function on a hand-built model."""
    from fast_ticc.containers import arguments, model_state
    from fast_ticc import likelihood
    K = len(c["clusters"])
    n, W, N = c["n"], c["W"], c["N"]
    args = arguments.UserArguments(sparsity_weight=0.1, iteration_limit=3, label_switching_cost=1.0,
                                   min_cluster_size=1, min_meaningful_covariance=0, num_clusters=K,
                                   num_processors=1, window_size=W, biased_covariance=False)
    data = np.array(c["points"], dtype=np.float64)
    model = model_state.ModelState.empty_model(args, data)
    for k, cl in enumerate(c["clusters"]):
        model.clusters[k].train_inverse = np.array(cl["theta"], dtype=np.float64)
        model.clusters[k].stacked_data_mean = np.array(cl["mu"], dtype=np.float64)
        if cl.get("stale"):
            # a history: this cluster object was scored before with ANOTHER precision matrix, whose cached
            # quantities are still attached (as after shallow/deep copies or a replaced MRF)
            other = np.eye(n) * 3.0
            model.clusters[k].inverse_covariance = other
            model.clusters[k].log_determinant = float(n * np.log(3.0))
    if c.get("evaluate_twice"):
        # ... or the table function itself ran on the same model object before the MRFs were replaced
        saved = [model.clusters[k].train_inverse for k in range(K)]
        for k in range(K):
            model.clusters[k].train_inverse = np.eye(n) * (2.0 + k)
        with np.errstate(all="ignore"):
            likelihood.all_points_all_clusters_log_likelihood(model, data)
        for k in range(K):
            model.clusters[k].train_inverse = saved[k]
    with np.errstate(all="ignore"):
        table = likelihood.all_points_all_clusters_log_likelihood(model, data)
        point = [[float(likelihood.point_log_likelihood(data[p], model.clusters[k], W, N)) for k in range(K)]
                 for p in range(len(data))]
    return {"table": [[float(v) for v in row] for row in np.asarray(table)], "point": point,
            "shape": list(np.asarray(table).shape), "tableDig": dig(np.asarray(table), np)}


def h_fullrun(c, np, cla):
    """A complete run of a front end in this execution mode (hooks on, no fault)."""
    from harness import runs
    t = runs.traced_run(c["cfg"])
    last = t["events"][-1]
    done = last["ev"] == "return"
    return {"completed": done, "labels": last.get("labelsPerSeries") if done else None,
            "resultDig": t["hdr"].get("resultDig"), "error_type": None if done else last.get("type"),
            "rounds": sum(1 for e in t["events"] if e["ev"] == "round_begin")}


def h_assign_raw(c, np, cla):
    """The labelling kernel on a table given as decimal strings (not exactly representable values, NaN columns):
    only compared ACROSS execution modes (C15), never against the integer specification."""
    tab = np.array([[float(v) for v in row] for row in c["cost"]], dtype=np.float64)
    beta = float(c["beta"]) if not isinstance(c["beta"], list) else np.array([float(v) for v in c["beta"]])
    labels, reported = cla.assign_point_cluster_labels(tab, beta)
    return {"labels": [int(x) for x in labels], "reported": repr(float(reported))}


HANDLERS = {"assign": h_assign, "lltable": h_lltable, "fullrun": h_fullrun, "assign_raw": h_assign_raw}

if __name__ == "__main__":
    main()
