"""Run TLC and parse what it says.  Exit discipline: machinery problems raise MachineryError."""
import os
import re
import subprocess
import time

from . import common

JAR = "/opt/veriftools/tla/tla2tools.jar:/opt/veriftools/tla/CommunityModules-deps.jar"


class TlcResult:
    def __init__(self, label):
        self.label = label
        self.out = ""
        self.rc = None
        self.ok = False
        self.generated = 0
        self.distinct = 0
        self.wall = 0.0
        self.violated = None       # name of violated invariant/property, if any
        self.prints = []           # parsed PrintT tuples/values as raw strings
        self.coverage = {}         # action -> (distinct, generated) when -coverage
        self.trace = ""            # counterexample text

    def lines_with(self, tag):
        return [p for p in self.prints if p.startswith('<<"' + tag + '"')]


_TUPLE = re.compile(r'^<<.*>>$')


def run(module, cfg, *, env=None, workers=None, simulate=None, depth=None, seedv=None,
        timeout=3600, coverage=False, deadlock=False, label=None, xss="1g", extra=(),
        heap=None, cwd=None, dfs=False):
    """Run TLC on spec/<module>.tla with config file `cfg` (absolute path or name in spec/)."""
    label = label or f"{module}/{os.path.basename(cfg)}"
    res = TlcResult(label)
    md = common.scratch("tlcmeta-")
    cfgp = cfg if os.path.isabs(cfg) else os.path.join(common.SPEC, cfg)
    cmd = ["java", f"-Xss{xss}", "-XX:+UseParallelGC", f"-Djava.io.tmpdir={md}"]     # TLC leaves an empty tlc-* directory per run there
    if heap:
        cmd.append(f"-Xmx{heap}")
    if dfs:
        cmd.append("-Dtlc2.tool.queue.IStateQueue=StateDeque")
    cmd += ["-cp", JAR, "tlc2.TLC", "-metadir", md, "-noGenerateSpecTE",
            "-workers", str(workers or common.NCPU), "-config", cfgp]
    if not deadlock:
        cmd.append("-deadlock")      # -deadlock DISABLES deadlock checking
    if coverage:
        cmd += ["-coverage", "1"]
    if simulate:
        cmd += ["-simulate", simulate]
    if depth:
        cmd += ["-depth", str(depth)]
    if seedv is not None:
        cmd += ["-seed", str(seedv)]
    cmd += list(extra)
    cmd.append(module)
    e = dict(os.environ)
    e.pop("JAVA_TOOL_OPTIONS", None)
    if env:
        e.update({k: str(v) for k, v in env.items()})
    t0 = time.time()
    try:
        p = subprocess.run(cmd, cwd=cwd or common.SPEC, env=e, capture_output=True, text=True,
                           timeout=timeout)
        res.out = p.stdout + p.stderr
        res.rc = p.returncode
    except subprocess.TimeoutExpired as ex:
        res.out = (ex.stdout or b"").decode(errors="replace") if isinstance(ex.stdout, bytes) else (ex.stdout or "")
        res.rc = -9
        common.rm(md)
        raise common.MachineryError(f"TLC timeout after {timeout}s on {label}")
    finally:
        common.rm(md)
    res.wall = time.time() - t0
    _parse(res)
    return res


def _parse(res):
    out = res.out
    m = re.findall(r"(\d+) states generated, (\d+) distinct states found", out)
    if m:
        res.generated, res.distinct = int(m[-1][0]), int(m[-1][1])
    res.ok = "Model checking completed. No error has been found." in out or \
        ("The number of states generated" in out and "Error:" not in out and res.rc == 0)
    m = re.search(r"Error: Invariant (\S+) is violated", out)
    if m:
        res.violated = m.group(1)
    m2 = re.search(r"Error: Action property (?:line \d+, col \d+ to line \d+, col \d+ of module (\w+)|(\S+)) is violated", out)
    if m2:                                       # an unnamed box-action formula = the [Next]_vars of an instantiated spec
        res.violated = m2.group(2) or ("not_a_step_of_" + m2.group(1))
    if "Temporal properties were violated" in out:
        res.violated = res.violated or "temporal"
    if "Error:" in out:
        i = out.index("Error:")
        res.trace = out[i:i + 20000]
    # PrintT output: a TLA+ tuple <<"TAG", ...>>, possibly pretty-printed over several lines
    buf = None
    for line in out.splitlines():
        st = line.strip()
        if buf is None:
            if st.startswith("<<") and re.match(r'<<\s*"', st):
                buf = st
            else:
                continue
        else:
            buf += " " + st
        if buf.count("<<") == buf.count(">>") and buf.count("{") == buf.count("}"):
            res.prints.append(re.sub(r'^<<\s*', '<<', buf))
            buf = None
    # coverage: "<Action line 12, col 1 to line 20, col 30 of module M>: 12:34"
    for m in re.finditer(r"<(\w+) line (\d+), col \d+ to line \d+, col \d+ of module (\w+)(?: \((\d+) \d+ \d+ \d+\))?>: (\d+):(\d+)", out):
        name, mod, d, g = m.group(1), m.group(3), int(m.group(5)), int(m.group(6))
        key = f"{mod}.{name}" + (f"@{m.group(4)}" if m.group(4) and name == "Next" else "")
        pd, pg = res.coverage.get(key, (0, 0))
        res.coverage[key] = (max(pd, d), max(pg, g))


def parse_tuple(s):
    """Parse a printed TLA+ tuple of strings/ints (possibly nested) into Python lists."""
    s = s.strip()
    pos = 0

    def val():
        nonlocal pos
        while s[pos] in " ,":
            pos += 1
        if s.startswith("<<", pos):
            pos += 2
            items = []
            while True:
                while s[pos] in " ,":
                    pos += 1
                if s.startswith(">>", pos):
                    pos += 2
                    return items
                items.append(val())
        if s[pos] == '"':
            j = s.index('"', pos + 1)
            v = s[pos + 1:j]
            pos = j + 1
            return v
        if s[pos] == '{':
            pos += 1
            items = []
            while True:
                while s[pos] in " ,":
                    pos += 1
                if s[pos] == '}':
                    pos += 1
                    return items
                items.append(val())
        m = re.match(r"-?\d+|TRUE|FALSE", s[pos:])
        if not m:
            raise ValueError(f"cannot parse {s[pos:pos+30]!r}")
        pos += len(m.group(0))
        t = m.group(0)
        return True if t == "TRUE" else False if t == "FALSE" else int(t)

    return val()


def need_ok(res, what=""):
    """A design-level model check must pass; anything else is a machinery failure unless it is a
    genuine invariant violation, which the caller handles."""
    if not res.ok and not res.violated:
        raise common.MachineryError(f"TLC failed on {res.label} {what}:\n{res.out[-3000:]}")


TLAPS_LIB = "/opt/veriftools/tlapm/lib/tlapm/stdlib"


def tlaps(module, timeout=1800):
    """Check the proofs of spec/<module>.tla with tlapm in a scratch copy of spec/ (tlapm writes a cache next to the
    module).  Returns (number of obligations, all proved?, output tail)."""
    import shutil
    d = common.scratch("tlaps-")
    try:
        for f in os.listdir(common.SPEC):
            if f.endswith(".tla"):
                shutil.copy(os.path.join(common.SPEC, f), d)
        try:
            p = subprocess.run(["tlapm", "--toolbox", "0", "0", module + ".tla"], cwd=d, capture_output=True, text=True,
                               timeout=timeout)
        except subprocess.TimeoutExpired:
            raise common.MachineryError(f"tlapm timeout after {timeout}s on {module}")
        out = p.stdout + p.stderr
        m = re.search(r"All (\d+) obligations? proved", out)
        failed = len(re.findall(r"@!!status:failed", out))
        return (int(m.group(1)) if m else 0), bool(m) and p.returncode == 0 and failed == 0, out[-3000:]
    finally:
        common.rm(d)


def sany(module_path):
    p = subprocess.run(["java", f"-DTLA-Library={TLAPS_LIB}", "-cp", JAR, "tla2sany.SANY", module_path], capture_output=True,
                       text=True, cwd=os.path.dirname(module_path))
    ok = p.returncode == 0 and "Semantic errors" not in p.stdout and "***Parse Error***" not in p.stdout \
        and "Fatal errors" not in p.stdout
    return ok, p.stdout + p.stderr
