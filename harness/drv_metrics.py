"""Exact-family replays for C05 / C16 / C17 (spec -> code): hand-built models whose exact values TLC
computes itself (MetricOps.tla)."""
import math
import random
from fractions import Fraction

import numpy as np

from . import proj


def family(rng, n, mode):
    """Theta = L diag(2^e) L^T, L unit lower triangular with two integer sub-diagonal bands."""
    b1 = [rng.choice([-1, 0, 0, 1]) for _ in range(n)]
    b2 = [rng.choice([-1, 0, 0, 0, 1]) for _ in range(n)]
    if n >= 1:
        b1[-1] = 0
        b2[-1] = 0
    if n >= 2:
        b2[-2] = 0
    if mode == "huge":
        e = [rng.randint(8, 22) for _ in range(n)]
    elif mode == "tiny":
        e = [-rng.randint(8, 20) for _ in range(n)]
    elif mode == "bic":
        e = [rng.randint(6, 16) for _ in range(n)] if rng.random() < 0.5 else [-rng.randint(4, 14) for _ in range(n)]
    elif mode == "bic_over":                 # determinant overflows a double for n >= ~100
        e = [rng.randint(8, 16) for _ in range(n)]
    elif mode == "bic_under":                # determinant underflows a double for n >= ~100
        e = [-rng.randint(8, 16) for _ in range(n)]
    elif mode == "subnormal":                # det = 2^sum(e) lands among the subnormal doubles: finite, positive, few bits
        target = -rng.randint(1026, 1070)
        base_e, rem = divmod(target, n)
        e = [base_e + (1 if i < rem else 0) for i in range(n)]
        rng.shuffle(e)
    else:
        e = [rng.randint(-6, 6) for _ in range(n)]
    L = np.eye(n)
    for i in range(n):
        if i + 1 < n:
            L[i + 1, i] = b1[i]
        if i + 2 < n:
            L[i + 2, i] = b2[i]
    D = np.array([2.0 ** k for k in e])
    theta = (L * D) @ L.T                       # exact: integers times powers of two, small sums
    # exactness audit with rationals on a few entries
    for _ in range(min(6, n)):
        i, j = rng.randrange(n), rng.randrange(n)
        want = sum(Fraction(int(L[i, k])) * Fraction(2) ** e[k] * Fraction(int(L[j, k])) for k in range(n))
        assert Fraction(float(theta[i, j])) == want, "exact family construction is not exact"
    theta = (theta + theta.T) / 2
    return {"b1": b1, "b2": b2, "e": e, "theta": theta}


def ll_cases(rng, count, sizes):
    cases = []
    for c in range(count):
        n = sizes[c % len(sizes)]
        W = rng.choice([w for w in range(1, n + 1) if n % w == 0 and w <= 12])
        K = rng.randint(1, 3)
        clusters = []
        for k in range(K):
            # (n >= 60 keeps every exponent within the -22 .. 22 the limb arithmetic of MetricOps is sized for)
            f = family(rng, n, ("subnormal" if (c % 7 == 3 and n >= 60 and k == 0) else
                                ["huge", "tiny", "mixed"][(c + k) % 3]) if n > 1 else "mixed")
            f["mu"] = [rng.randint(-3, 3) for _ in range(n)]
            clusters.append(f)
        T = rng.randint(1, 4)
        pts = []
        for _ in range(T):
            base = clusters[rng.randrange(K)]["mu"]
            d = [0] * n
            for _ in range(rng.randint(0, 3)):
                d[rng.randrange(n)] = rng.choice([-1, 1, 2])
            pts.append([b + x for b, x in zip(base, d)])
        if c % 5 == 4 and n <= 12:
            # a held signal: the same stacked window many times over, across the chunks a parallel loop is split into
            pts = [p for p in pts for _ in range(40)]
        cases.append({"fn": "lltable", "n": n, "W": W, "N": n // W,
                      "clusters": [{"b1": f["b1"], "b2": f["b2"], "e": f["e"], "mu": f["mu"],
                                    "theta": f["theta"].tolist(), "stale": (c % 3 == 1 and k % 2 == 0)}
                                   for k, f in enumerate(clusters)],
                      "evaluate_twice": c % 3 == 2,
                      "points": pts})
    return cases


def llobs_cases(rng, count):
    """Generic SPD precision matrices (full mantissas, not the exact dyadic family) with log det in the band where
    det is a subnormal double (about -745 .. -708) or just beyond either end of the double range."""
    nrng = np.random.default_rng(rng.randrange(1 << 30))
    cases = []
    for c in range(count):
        n = [12, 40, 90][c % 3]
        W = [3, 10, 9][c % 3]
        target = [-743.5, -741.0, -738.0, -744.4, 707.0, 709.5, -750.0, -700.0][c % 8]
        q, _ = np.linalg.qr(nrng.normal(size=(n, n)))
        u = nrng.uniform(-0.6, 0.6, size=n)
        u -= u.mean()
        lam = np.exp(target / n + u)
        theta = (q * lam) @ q.T
        theta = (theta + theta.T) / 2
        mu = nrng.normal(size=n)
        pts = mu + nrng.normal(size=(3, n)) * np.exp(-target / (2 * n))
        cases.append({"fn": "lltable", "n": n, "W": W, "N": n // W, "clusters": [{"theta": theta.tolist(), "mu": mu.tolist()}],
                      "points": pts.tolist(), "target": target})
    return cases


def llobs_records(case, result):
    from harness import obs
    cl = case["clusters"][0]
    recs = []
    for src in ("table", "point"):
        vals = [row[0] for row in result[src]]
        ok = "bad" if any(v is None or not math.isfinite(v) for v in vals) else \
            obs.o7_ll(vals, np.array(case["points"]), np.array(cl["mu"]), np.array(cl["theta"]))
        recs.append({"kind": "llobs", "src": src, "ok": ok, "n": case["n"], "target": case["target"]})
    return recs


def ll_records(case, result):
    """One record per (point, cluster) and per source (table / per-point function)."""
    recs = []
    for src in ("table", "point"):
        vals = result[src]
        for p, x in enumerate(case["points"]):
            for k, cl in enumerate(case["clusters"]):
                v = vals[p][k]
                if v is None:
                    continue
                d = [a - b for a, b in zip(x, cl["mu"])]
                ok = d_ok(d, cl)
                if not ok:
                    continue
                fin = math.isfinite(v)
                recs.append({"kind": "ll", "d": d, "b1": cl["b1"], "b2": cl["b2"], "e": cl["e"],
                             "finite": fin, "llL": proj.limb(v, 20) if fin else [0, 0], "src": src,
                             "n": case["n"], "sumE": sum(cl["e"])})
    return recs


def d_ok(d, cl):
    """keep y_i^2 * 2^|e_i| within TLC's integers (the harness only FILTERS inputs here)."""
    n = len(d)
    quad = Fraction(0)
    for i in range(n):
        y = d[i] + (cl["b1"][i] * d[i + 1] if i + 1 < n else 0) + (cl["b2"][i] * d[i + 2] if i + 2 < n else 0)
        if y * y * (2 ** abs(cl["e"][i])) >= 2 ** 30:
            return False
        quad += Fraction(y * y) * Fraction(2) ** cl["e"][i]
    return quad < 2 ** 28                    # so that ll * 2^20 fits the two-limb format


def bic_job(job):
    from harness import common
    common.use_repo()
    from fast_ticc.containers import arguments, model_state
    from fast_ticc import cluster_metrics
    n, K, T, seed = job[:4]
    fam = job[4] if len(job) > 4 else "bic"
    rng = random.Random(seed)
    args = arguments.UserArguments(sparsity_weight=0.1, iteration_limit=3, label_switching_cost=1.0,
                                   min_cluster_size=1, min_meaningful_covariance=0, num_clusters=K,
                                   num_processors=1, window_size=1, biased_covariance=False)
    labels = []
    while len(labels) < T:
        labels += [rng.randrange(K)] * rng.randint(1, 4)
    labels = labels[:T]
    model = model_state.ModelState.empty_model(args, np.zeros((T, n)))
    model.point_labels = list(labels)
    counts, sumE, trL = [], [], []
    for k in range(K):
        f = family(rng, n, fam)
        S = np.eye(n) * rng.randint(1, 3)
        for _ in range(min(n, 4)):
            i, j = rng.randrange(n), rng.randrange(n)
            v = rng.randint(-1, 1)
            S[i, j] += v
            if i != j:
                S[j, i] += v
        th = f["theta"]
        model.clusters[k].train_inverse = th
        model.clusters[k].empirical_covariance = S
        counts.append(int(sum(1 for a in th.ravel() if abs(a) > 2e-5)))
        sumE.append(sum(f["e"]))
        tr = sum(Fraction(float(th[i, j])) * Fraction(int(S[j, i])) for i in range(n) for j in range(n)
                 if S[j, i] != 0)
        t20 = tr * (1 << 20)
        assert t20.denominator == 1, "trace not representable at scale 2^20"
        trL.append(proj.limb_of_int(int(t20)))
    got = float(cluster_metrics.bayesian_information_criterion(model))
    fin = math.isfinite(got)
    return {"kind": "bic", "labels": labels, "paramCount": counts, "sumE": sumE, "trL": trL,
            "lnTL": proj.limb(math.log(T), 20), "bicL": proj.limb(got, 20) if fin else [0, 0],
            "finite": fin, "sumAbsE": sum(abs(s) for s in sumE), "n": n, "K": K, "T": T}


def ch_job(job):
    from harness import common, obs
    common.use_repo()
    from fast_ticc.containers import arguments, model_state
    from fast_ticc import cluster_metrics, cluster_maintenance
    T, C, K, seed = job
    rng = random.Random(seed)
    while True:
        labels = [rng.randrange(K) for _ in range(T)]
        if all(labels.count(k) > 0 for k in range(K)):
            break
    if seed % 3 == 0 and T >= 2 * K:
        # piecewise-constant labellings (what TICC produces): every cluster one unbroken run, or A..B..A
        cuts = sorted(rng.sample(range(1, T), K - 1))
        order = list(range(K))
        rng.shuffle(order)
        labels, prev = [], 0
        for k, c in zip(order, cuts + [T]):
            labels += [k] * (c - prev)
            prev = c
        if seed % 6 == 0 and labels.count(labels[-1]) >= 2:
            labels[-1] = labels[0]                    # the first cluster comes back at the very end
    X = [[rng.randint(0, 3) for _ in range(C)] for _ in range(T)]
    # translations from the size of the spread up to 1e8 times it (a level far above the spread is where a one-pass
    # "sum of squares minus n * mean^2" dispersion loses every digit; the two-pass definition does not)
    col, shift = rng.randrange(C), rng.choice([1, 2, 5, 2 ** 20, 10 ** 6, 2 ** 27, 3 * 10 ** 8])

    unit = 2.0 ** -rng.choice([0, 0, 20, 40])          # Wd down to 1e-24: an absolute epsilon in the ratio would show

    def index_of(data):
        data = [[v * unit for v in row] for row in data]
        args = arguments.UserArguments(sparsity_weight=0.1, iteration_limit=3, label_switching_cost=1.0,
                                       min_cluster_size=1, min_meaningful_covariance=0, num_clusters=K,
                                       num_processors=1, window_size=1, biased_covariance=True)
        arr = np.array(data, dtype=np.float64)
        model = model_state.ModelState.empty_model(args, arr)
        model.point_labels = list(labels)
        model = cluster_maintenance.update_all_cluster_statistics(model, arr)
        with np.errstate(all="ignore"):
            try:
                return float(cluster_metrics.calinski_harabasz_index(arr, model)), arr
            except Exception:                     # the function under test raised: not a number -> the clause fails
                return float("nan"), arr
    got, arr = index_of(X)
    X2 = [[v + (shift if c == col else 0) for c, v in enumerate(row)] for row in X]
    got2, _ = index_of(X2)

    def q(v):
        return int(round(v * 1024)) if math.isfinite(v) and abs(v) < 1e5 else -1
    dev = obs.ch_definition(arr, labels, K, "scalar")
    dev2 = obs.ch_definition(np.array(X2, dtype=np.float64), labels, K, "scalar")

    def close(a, b):
        return (math.isfinite(a) and math.isfinite(b) and abs(a - b) <= 1e-9 * (abs(b) + 1e-300)) or \
            (not math.isfinite(a) and not math.isfinite(b))
    return {"kind": "ch", "X": X, "labels": labels, "K": K, "chQ": q(got), "chQTranslated": q(got2),
            "scalarCentreExplains": bool(close(got, dev) and close(got2, dev2)),
            "col": col + 1, "shift": shift}


def big_job(job):
    """A LONG single-series run (clusters of thousands of windows - beyond any block size an implementation may
    process its points in), judged by the observation predicates only: the per-point data are too many to hand to TLC."""
    from harness import common, obs, runs
    common.use_repo()
    T, N, W, K, limit, seed = job
    rng = random.Random(seed)
    c = runs.gen_config(rng, 0, "quick")
    c.update(id=f"big{seed}", fe="single", K=K, N=N, W=W, limit=limit, m=3, eps=0, scale=1.0, lam=0.11, lam_form="float",
             beta=5.0, beta_form="float", biased=bool(seed % 2), n_regimes=K, readonly=False, fortran=False, P=1, mp=False,
             lens=[T], offset=0.0, series_dtype=None, degenerate=None, outlier=False)
    c["big"] = True
    if K > 100:
        c.update(ramp=True, biased=True, m=5)
    tr = runs.traced_run(c)
    last = tr["events"][-1]
    if last["ev"] != "return":
        return {"kind": "big", "completed": False, "type": last.get("type", ""), "T": T}
    sizes = [last["modelLabels"].count(k) for k in range(K)]
    per = last["labelsPerSeries"][0] if len(last["labelsPerSeries"]) == 1 else []
    front = (W - 1) // 2
    back = (W - 1) - front
    labels_ok = (len(per) == T and bool(last["labelsIntegral"]) and all(v == -1 for v in per[:front])
                 and all(v == -1 for v in per[len(per) - back:] if back) and all(0 <= v < K for v in per[front:len(per) - back])
                 and per[front:len(per) - back] == last["modelLabels"] and last["K"] == K and last["W"] == W
                 and len(last["mrfShapes"]) == K)
    return {"kind": "big", "completed": True, "labelsOk": labels_ok, "clustersInUse": sum(1 for s_ in sizes if s_ > 0), "T": T, "n": len(last["modelLabels"]), "nAll": last["nAll"], "K": K,
            "largestCluster": max(sizes), "allNonEmpty": bool(last["allNonEmpty"]),
            "converged": any(e["ev"] == "converged" for e in tr["events"]),
            "acctOk": last["acctOk"], "o7result": last["o7result"], "bicOk": last["bicOk"],
            "chOk": last["chOk"], "chScalarCentre": bool(last["chScalarCentre"])}


def floor_job(job):
    """_zero_small_elements / _reconstruct_optimized_matrix on integer matrices (exact), including entries
    exactly equal to +-eps, eps = 0, negative entries, both copy modes."""
    from harness import common
    common.use_repo()
    from fast_ticc import graphical_lasso, matrix_compression
    from fast_ticc.containers import arguments, model_state
    n, eps, how, seed = job[:4]
    unit = 2.0 ** -(job[4] if len(job) > 4 else 0)        # the floor is scale-free: everything times an exact power of two
    rng = random.Random(seed)
    vals = [-3, -2, -1, 0, 1, 2, 3, eps, -eps]
    if how == "reconstruct":
        tri = [rng.choice(vals) for _ in range(n * (n + 1) // 2)]
        args = arguments.UserArguments(sparsity_weight=0.1, iteration_limit=3, label_switching_cost=1.0,
                                       min_cluster_size=1, min_meaningful_covariance=eps * unit, num_clusters=2,
                                       num_processors=1, window_size=1, biased_covariance=False)
        model = model_state.ModelState.empty_model(args, np.zeros((2, n)))
        vec = np.array(tri, dtype=np.float64) * unit
        snap = vec.tobytes()
        out = graphical_lasso._reconstruct_optimized_matrix(model, vec) / unit
        m = np.zeros((n, n))
        k = 0
        for r in range(n):
            for c in range(r, n):
                m[r, c] = m[c, r] = tri[k]
                k += 1
        return {"kind": "floor", "m": [[int(v) for v in row] for row in m], "eps": eps,
                "out": [[int(v) for v in row] for row in out], "copy": True, "input_same": vec.tobytes() == snap,
                "how": how}
    m = np.array([[rng.choice(vals) for _ in range(n)] for _ in range(n)], dtype=np.float64) * unit
    orig = m.copy()
    copy = how == "copy"
    out = graphical_lasso._zero_small_elements(m, eps * unit, copy=copy)
    return {"kind": "floor", "m": [[int(v) for v in row] for row in orig / unit], "eps": eps,
            "out": [[int(v) for v in row] for row in out / unit], "copy": copy, "input_same": bool((m == orig).all()),
            "how": how}
