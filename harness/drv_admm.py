"""Driver for the public optimiser entry point (C02, C03 solver level, C18/C19 side clauses):
calls admm_optimize_theta in-process with a sink on the solver hooks and produces one trace per call
for TraceAdmm, with the observations O2..O6 evaluated on sampled iterations and on the result."""
import math
import multiprocessing as mp
import random

import numpy as np

from . import common, obs, proj, tracecheck


# ----------------------------------------------------------------------------- class tables
def class_positions(N, W):
    """Toeplitz classes (b, r, c) -> upper-triangle positions, by the definition in IndexOps.tla
    (independent of the repository's helpers)."""
    out = {}
    for b in range(W):
        for r in range(N):
            for c in range(r if b == 0 else 0, N):
                out[(b, r, c)] = [(i * N + r, (i + b) * N + c) for i in range(W - b)]
    return out


def reinflate(vec, n):
    return obs.reinflate(vec, n)


def lam_at(lam, p):
    return float(lam[p]) if isinstance(lam, np.ndarray) else float(lam)


# ----------------------------------------------------------------------------- observations
def o3_kkt(theta_vec, S, lam, N, W, abs_tol, rel_tol):
    """KKT certificate (DESIGN Appendix C) from the returned Theta and S only.
    Returns (kkt, toeplitz, info)."""
    n = N * W
    th = reinflate(theta_vec, n)
    if not np.isfinite(th).all():
        return "bad", "bad", {}
    try:
        inv = np.linalg.inv(th)
        cond = np.linalg.cond(th)
    except np.linalg.LinAlgError:
        return "bad", "bad", {}
    G = np.asarray(S, dtype=np.float64) - inv
    iu = np.triu_indices(n)
    nc = len(theta_vec)
    abs_term = math.sqrt(nc) * abs_tol + 1e-4
    eps_pri = (abs_term + rel_tol * float(np.linalg.norm(theta_vec))) / (1 - rel_tol)
    eps_dual = (abs_term + rel_tol * float(np.linalg.norm(G[iu]))) / (1 - rel_tol)
    numerr = 10 * np.finfo(float).eps * cond * float(np.abs(inv).max())
    classes = class_positions(N, W)
    # Toeplitz deviation: distance to the class-mean projection, full-matrix Frobenius norm
    proj_t = np.zeros_like(th)
    for pos in classes.values():
        m = np.mean([th[p] for p in pos])
        for (r, c) in pos:
            proj_t[r, c] = m
            proj_t[c, r] = m
    dev = float(np.linalg.norm(th - proj_t))
    toep_thr = 2 * math.sqrt(2) * eps_pri + 1e-12 * float(np.abs(th).max())
    toep = "ok" if dev <= toep_thr else "bad"
    worst = 0.0
    verdict = "ok"
    for (b, r, c), pos in classes.items():
        R = len(pos)
        g = -sum(G[p] for p in pos)
        Lam = sum(lam_at(lam, p) for p in pos)
        tau = 4 * math.sqrt(R) * eps_dual + R * numerr
        if tau > max(Lam, 1e-3) * 0.5 + 0.5 * abs(g) and tau > 1e-2:
            verdict = "inc" if verdict == "ok" else verdict       # certificate cannot discriminate here
            continue
        mean = float(np.mean([th[p] for p in pos]))
        v1 = abs(g) - Lam
        worst = max(worst, v1 / tau)
        if v1 > tau:
            return "bad", toep, {"class": (b, r, c), "g": g, "Lam": Lam, "tau": tau, "mean": mean}
        if abs(mean) > 2 * eps_pri:
            v2 = abs(g - Lam * (1 if mean > 0 else -1))
            worst = max(worst, v2 / tau)
            if v2 > tau:
                return "bad", toep, {"class": (b, r, c), "g": g, "Lam": Lam, "tau": tau, "mean": mean}
    return verdict, toep, {"worst_ratio": worst, "toeplitz_ratio": dev / toep_thr if toep_thr else 0.0}


def o4_xprox(x, z_old, u_old, S, rho, n):
    X = reinflate(x, n)
    A = reinflate(np.asarray(z_old) - np.asarray(u_old), n)
    if not np.isfinite(X).all():
        return "bad"
    try:
        Xi = np.linalg.inv(X)
        cond = np.linalg.cond(X)
    except np.linalg.LinAlgError:
        return "bad"
    lhs = rho * X - Xi
    rhs = rho * A - np.asarray(S, dtype=np.float64)
    scale = float(np.abs(rho * X).max() + np.abs(Xi).max() + np.abs(rhs).max())
    err = float(np.abs(lhs - rhs).max())
    bound = 1e-8 * scale
    if cond * np.finfo(float).eps * float(np.abs(Xi).max()) * 100 > bound:
        return "inc"
    return "ok" if err <= bound else "bad"


def z_formula(x, u, lam, rho, N, W):
    """The consensus step by the formula of ZUpdate.tla, in float64, from my own class tables."""
    n = N * W
    out = np.zeros(len(x))

    def cidx(r, c):
        return r * n - r * (r - 1) // 2 + (c - r)
    s = np.asarray(x) + np.asarray(u)
    for (b, r, c), pos in class_positions(N, W).items():
        R = len(pos)
        idx = [cidx(*p) for p in pos]
        a = rho * float(np.sum(s[idx]))
        Q = sum(lam_at(lam, p) for p in pos)
        if a > Q:
            zz = max((a - Q) / (rho * R), 0)
        elif a < -Q:
            zz = min((a + Q) / (rho * R), 0)
        else:
            zz = 0.0
        out[idx] = zz
    return out


class SolverSink:
    def __init__(self, S, lam, N, W, sample_rng):
        self.S, self.lam, self.N, self.W = S, lam, N, W
        self.events = []
        self.rng = sample_rng
        self.rho_before = None

    def __call__(self, event, f):
        n = self.N * self.W
        if event == "admm_enter":
            self.events.append({"ev": "enter"})
        elif event == "admm_step":
            it = int(f["iteration"])
            rho = float(f["args"].rho)
            ev = {"ev": "step", "it": it, "xDig": proj.dig(f["x"]), "zDig": proj.dig(f["z"]),
                  "uDig": proj.dig(f["u"]), "o4": "na", "o5": "na", "o6": "na"}
            if it < 3 or self.rng.random() < 0.04:
                ev["o4"] = o4_xprox(f["x"], f["z_old"], f["u_old"], self.S, rho, n)
                ev["o5"] = "ok" if np.array_equal(f["u"], f["u_old"] + f["x"] - f["z"]) else "bad"
                want = z_formula(f["x"], f["u_old"], self.lam, rho, self.N, self.W)
                tol = 1e-12 * (1 + float(np.abs(want).max()) + float(np.abs(np.asarray(f["x"]) + np.asarray(f["u_old"])).max()))
                ev["o6"] = "ok" if float(np.abs(want - f["z"]).max()) <= tol else "bad"
            self.events.append(ev)
            self.last_u = np.array(f["u"], copy=True)
            self.rho_before = rho
        elif event == "admm_check":
            self.events.append({"ev": "check", "it": int(f["iteration"]), "converged": bool(f["converged"]),
                                "rpOk": bool(f["residual_primal"] <= f["tolerance_primal"]),
                                "rdOk": bool(f["residual_dual"] <= f["tolerance_dual"])})
        elif event == "admm_rho":
            new = float(f["args"].rho)
            scale = self.rho_before / new if new != 0 else float("nan")
            ok = np.array_equal(f["u"], scale * self.last_u)
            self.events.append({"ev": "rho", "it": int(f["iteration"]), "newRho": repr(new),
                                "scaleOk": "ok" if ok else "bad"})
        elif event == "admm_exit":
            self.exit = {"iterations": int(f["iterations"]), "converged": bool(f["converged"]),
                         "xDig": proj.dig(f["x"])}


def make_cov(rng, n, kind, scale):
    if kind == "full":
        A = rng.normal(size=(3 * n + 5, n))
        S = np.cov(A.T, bias=True)
    elif kind == "rank_deficient":
        A = rng.normal(size=(max(2, n // 2), n))
        S = np.cov(A.T, bias=True)
    elif kind == "diagonal":
        S = np.diag(rng.uniform(0.2, 3.0, size=n))
    elif kind == "correlated":
        S = np.full((n, n), 0.95) + 0.05 * np.eye(n)
    elif kind == "duplicated_points":
        A = np.repeat(rng.normal(size=(2, n)), 6, axis=0)
        S = np.cov(A.T, bias=True)
    elif kind == "constant_sensor":
        A = rng.normal(size=(3 * n + 5, n))
        A[:, 0] = 1.5
        S = np.cov(A.T, bias=True)
    elif kind == "roundoff_asymmetric":         # symmetric only up to round-off (C19 only: outside C02's quantifier)
        A = rng.normal(size=(3 * n + 5, n))
        S = (A.T @ A) / A.shape[0]
        S = S + 1e-16 * np.triu(rng.normal(size=(n, n)), 1) * np.abs(S).max()
        return np.atleast_2d(S) * scale
    elif kind == "uncond":                      # eigenvalues in [0.25, 4]
        Q, _ = np.linalg.qr(rng.normal(size=(n, n)))
        S = (Q * rng.uniform(0.25, 4.0, size=n)) @ Q.T
        S = (S + S.T) / 2
    else:
        raise ValueError(kind)
    S = np.atleast_2d(S) * scale
    return (S + S.T) / 2


def solve(job):
    common.use_repo()
    from fast_ticc import admm, _verif_hooks as vh
    (N, W, kind, scale, lam_val, lam_form, rho, cb, max_it, seed) = job
    rng = np.random.default_rng(seed)
    prng = random.Random(seed)
    n = N * W
    S = make_cov(rng, n, kind, scale)
    if lam_form == "scalar":
        lam = float(lam_val)
    elif lam_form == "matrix_const":
        lam = np.zeros((n, n)) + float(lam_val)
    else:
        a = rng.uniform(0.5, 1.5, size=(n, n)) * float(lam_val)
        lam = (a + a.T) / 2
    layout = prng.choice(["C", "C", "F", "T"])
    if layout == "F":
        S = np.asfortranarray(S)                 # column-major (what LAPACK overwrites in place when allowed to)
    elif layout == "T":
        S = np.ascontiguousarray(S.T).T          # a transposed view of a row-major matrix
    if prng.random() < 0.3:
        S.setflags(write=False)
        if isinstance(lam, np.ndarray):
            lam.setflags(write=False)
    callback = None
    if cb:
        def callback(r, rp, tp, rd, td):          # a standard residual-balancing rule
            if rp > 10 * rd:
                return r * 2.0
            if rd > 10 * rp:
                return r / 2.0
            return r
    rho_obj = float(rho)
    snap = (proj.dig(S), proj.dig(lam))
    sink = SolverSink(S, lam, N, W, prng)
    vh.install_sink(sink)
    err = None
    try:
        res = admm.admm_optimize_theta(S, lam, W, N, rho=rho_obj, rho_update=callback, max_iterations=max_it)
        theta = res.theta
    except Exception as ex:                      # pylint: disable=broad-except
        err = f"{type(ex).__name__}: {ex}"
    finally:
        vh.install_sink(None)
    uncond = (kind == "uncond" and rho == 1 and not cb and 0 <= lam_val <= 1 and lam_form != "matrix_sym"
              and max_it == 1000)
    tr = {"maxIt": max_it, "hasCb": bool(cb), "rho": repr(float(rho)), "events": sink.events,
          "job": {"N": N, "W": W, "kind": kind, "scale": repr(scale), "lam": repr(lam_val), "lam_form": lam_form,
                  "rho": repr(rho), "callback": bool(cb), "max_it": max_it, "seed": seed}, "error": err or ""}
    if err is None:
        ex = sink.exit
        kkt, toep, info = ("na", "na", {})
        if ex["converged"]:
            kkt, toep, info = o3_kkt(theta, S, lam, N, W, 1e-6, 1e-6)
        mrf = reinflate(theta, n)
        ex.update({"ev": "exit", "o3": kkt, "toep": toep, "o2": obs.o2_spd(mrf), "uncond": bool(uncond),
                   "args_same": snap == (proj.dig(S), proj.dig(lam)), "rho_same": rho_obj == float(rho),
                   "info": {k: (repr(v) if isinstance(v, float) else str(v)) for k, v in info.items()}})
        tr["events"].append(ex)
    return tr


def jobs_for(tier, rng, want_scales):
    jobs = []
    n = 60 if tier == "quick" else 1200
    kinds = ["full", "rank_deficient", "diagonal", "correlated", "uncond", "uncond", "duplicated_points",
             "constant_sensor"]
    shapes = [(1, 1), (1, 3), (2, 1), (2, 2), (2, 3), (3, 2), (3, 3), (4, 2), (2, 5), (5, 2), (4, 4), (3, 6), (6, 5),
              (10, 6)]
    for i in range(n):
        N, W = shapes[i % len(shapes)] if i % 7 else rng.choice(shapes[:9])
        if N * W > 20 and tier == "quick" and i % 14:
            N, W = rng.choice(shapes[:8])
        kind = kinds[i % len(kinds)]
        lam_form = ["scalar", "matrix_const", "matrix_sym"][i % 3]
        lam_val = rng.choice([0.0, 1e-3, 0.01, 0.11, 0.5, 1.0, 2.0, 5.0])
        rho = rng.choice([0.1, 0.5, 1.0, 1.0, 2.0, 10.0])
        cb = rng.random() < 0.3
        if kind == "uncond" and i % 2 == 0:
            rho, cb, lam_val = 1.0, False, rng.choice([0.0, 0.01, 0.11, 0.5, 1.0])
            lam_form = ["scalar", "matrix_const"][i % 4 // 2]
        max_it = 1000 if i % 11 else rng.choice([1, 2, 5])     # budget 0 is covered by the model (Admm_d.cfg)
        jobs.append((N, W, kind, 1.0, lam_val, lam_form, rho, cb, max_it, rng.randrange(1 << 30)))
    if want_scales:
        exps = range(-12, 13, 4) if tier == "quick" else range(-12, 13)
        for e in exps:
            for kind in ("full", "rank_deficient", "duplicated_points"):
                N, W = rng.choice([(2, 2), (3, 2), (2, 3)])
                jobs.append((N, W, kind, 10.0 ** e, 0.11, "scalar", 1.0, False, 1000, rng.randrange(1 << 30)))
    return jobs


def solver_sweep(rep, tier, enforced, extra_kinds=()):
    """Run the solver driver and validate every call against TraceAdmm with the given clauses."""
    from . import corpus
    rng = random.Random(common.seed() * 40692 + 2)

    def build():
        jobs = jobs_for(tier, rng, True)
        for kind in extra_kinds:
            for i in range(6 if tier == "quick" else 60):
                N, W = rng.choice([(2, 2), (3, 2), (2, 3), (1, 3)])
                jobs.append((N, W, kind, 1.0, 0.11, ["scalar", "matrix_const"][i % 2], 1.0, False, 50,
                             rng.randrange(1 << 30)))
        return common.pmap_chunked(solve, jobs, chunk=2)
    traces = corpus.cached(f"solver_{tier}_{common.seed()}_{'-'.join(extra_kinds)}", build)
    ok = [t for t in traces if not t["error"]]
    for t in traces:
        if t["error"]:
            rep.regime("solver_raised")
            if "C03" in enforced or "C02" in enforced or "C19" in enforced:
                rep.violation("solver_raised_on_valid_input", {"job": t["job"], "error": t["error"]}, t["error"][:120])
    acc, fail, res = tracecheck.validate("TraceAdmm", ok, enforced, spec="TraceSpec",
                                         extra_constants={"MaxIt": 1000, "RhoVals": "{}", "HasCallback": "FALSE"})
    for r in res:
        rep.add_tlc(r)
    for gi, fl in sorted(fail.items()):
        t = ok[gi]
        rep.violation(fl[0][1], {"job": t["job"], "clauses": fl, "exit": t["events"][-1]},
                      f"N={t['job']['N']} W={t['job']['W']} kind={t['job']['kind']} scale={t['job']['scale']} "
                      f"lam={t['job']['lam']}/{t['job']['lam_form']}")
    rep.cov["evaluations"] += sum(len(t["events"]) for t in ok)
    rep.cov["traces_validated_against_impl"] += len(acc)
    rep.notes["solver_calls"] = len(ok)
    for t in ok:
        ex = t["events"][-1]
        rep.regime("solver_converged" if ex["converged"] else "solver_budget_exhausted")
        rep.regime("kkt_" + ex["o3"])
        rep.regime("lam_" + t["job"]["lam_form"])
        rep.regime("cov_" + t["job"]["kind"])
        if t["job"]["callback"]:
            rep.regime("adaptive_rho")
        if ex["uncond"]:
            rep.regime("unconditional_clause")
        if t["job"]["scale"] != "1.0":
            rep.regime("solver_scaled_covariance")
    return ok, acc, fail


# ----------------------------------------------------------------------------- exact consensus-step replay
def zstep_job(job):
    """The real consensus step on integer data (spec -> code, judged by TraceZUpdate)."""
    common.use_repo()
    from fast_ticc.admm import solver
    from fast_ticc.containers import arguments
    N, W, rho, form, seed = job
    rng = random.Random(seed)
    n = N * W
    nc = n * (n + 1) // 2
    x = np.array([rng.randint(-3, 3) for _ in range(nc)], dtype=np.float64)
    u = np.array([rng.randint(-2, 2) for _ in range(nc)], dtype=np.float64)
    v = rng.choice([0, 1, 2, 3])
    if form == "scalar":
        lam, lam_json, constant = float(v), [v], True
    elif form == "matrix_const":
        lam = np.zeros((n, n)) + float(v)
        lam_json, constant = [[v] * n for _ in range(n)], True
    else:
        a = np.array([[rng.randint(0, 3) for _ in range(n)] for _ in range(n)])
        a = np.triu(a) + np.triu(a, 1).T
        lam, lam_json, constant = a.astype(np.float64), [[int(t) for t in row] for row in a], False

    def args_for(l):
        return arguments.ADMMArguments(window_size=W, num_data_series=N, rho=float(rho), rho_update=None,
                                       sparsity_weight=l, absolute_tolerance=1e-6, relative_tolerance=1e-6,
                                       max_iterations=10, verbose=False)
    snap = (x.tobytes(), u.tobytes(), lam.tobytes() if isinstance(lam, np.ndarray) else repr(lam))
    z = solver.admm_update_z(args_for(lam), u, x)
    same = snap == (x.tobytes(), u.tobytes(), lam.tobytes() if isinstance(lam, np.ndarray) else repr(lam))
    zs = solver.admm_update_z(args_for(float(v)), u, x) if constant else z
    # what compute_lambda_sum says for every class, stored at the class's first compressed position
    lamsum = [0] * nc
    for (b, r, c), pos in class_positions(N, W).items():
        val = solver.compute_lambda_sum(lam, b, r, c, N, W)
        p0 = pos[0]
        lamsum[p0[0] * n - p0[0] * (p0[0] - 1) // 2 + (p0[1] - p0[0])] = int(round(float(val)))
    return {"N": N, "W": W, "rho": rho, "scalar": form == "scalar", "constant": constant, "lam": lam_json,
            "s": [int(a + b) for a, b in zip(x, u)], "zq": [int(round(float(t) * 65536)) for t in z],
            "zqScalarForm": [int(round(float(t) * 65536)) for t in zs], "lamsum": lamsum, "args_same": same,
            "form": form}


def zstep_replay(rep, tier, enforced):
    rng = random.Random(common.seed() * 911 + 2)
    shapes = [(1, 1), (1, 3), (2, 1), (2, 2), (2, 3), (3, 2), (3, 3), (2, 4), (4, 2)]
    jobs = [(N, W, rho, form, rng.randrange(1 << 30)) for (N, W) in shapes for rho in (1, 2, 4)
            for form in ("scalar", "matrix_const", "matrix_sym") for _ in range(2 if tier == "quick" else 30)]
    recs = common.pmap_chunked(zstep_job, jobs, chunk=8)
    acc, fail, res = tracecheck.validate("TraceZUpdate", recs, enforced)
    for r in res:
        rep.add_tlc(r)
    rep.cov["evaluations"] += len(recs)
    rep.cov["traces_validated_against_impl"] += len(acc)
    rep.regime("exact_consensus_step_records", len(recs))
    for gi, fl in sorted(fail.items()):
        r = recs[gi]
        rep.violation(fl[0][1], {"record": {k: v for k, v in r.items() if k not in ("zq", "zqScalarForm")}, "clauses": fl},
                      f"N={r['N']} W={r['W']} rho={r['rho']} lambda form={r['form']}")
    return recs
