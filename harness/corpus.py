"""The shared corpus of traced complete runs, cached per (source tree, harness, tier, seed)."""
import fcntl
import json
import os
import random
import time

from . import common, runs, tracecheck

N_RUNS = {"quick": 44, "thorough": 420}          # plus the limit sweep (24 / 96 runs)


def cache_dir():
    d = os.path.join(common.VERIF, ".cache", common.src_tree_hash())
    os.makedirs(d, exist_ok=True)
    return d


def _prune_cache(keep):
    root = os.path.join(common.VERIF, ".cache")
    try:
        for name in os.listdir(root):
            p = os.path.join(root, name)
            if p != keep and os.path.isdir(p) and time.time() - os.path.getmtime(p) > 6 * 3600:
                common.rm(p)
    except OSError:
        pass


def cached(name, builder):
    """Build once per cache key; concurrent checks wait on a file lock instead of rebuilding."""
    d = cache_dir()
    path = os.path.join(d, name + ".json")
    lock = os.path.join(d, name + ".lock")
    with open(lock, "w") as lf:
        fcntl.flock(lf, fcntl.LOCK_EX)
        try:
            if os.path.exists(path) and os.environ.get("VERIF_NOCACHE") != "1":
                with open(path) as fh:
                    return json.load(fh)
            val = builder()
            tmp = path + ".tmp"
            with open(tmp, "w") as fh:
                json.dump(val, fh)
            os.replace(tmp, path)
            _prune_cache(d)
            return val
        finally:
            fcntl.flock(lf, fcntl.LOCK_UN)


def build(tier):
    rng = random.Random(common.seed() * 1000003 + (1 if tier == "quick" else 2))
    cfgs = [runs.gen_config(rng, i, tier) for i in range(N_RUNS[tier])]
    # limit sweep: the SAME data and seeds stopped after 2, 3, ... rounds, so that runs end at the iteration limit
    # in every round of a NON-MONOTONE cost sequence (what is returned must be the LAST round's, not the best).
    # Candidates are run once with a generous limit; those whose per-round cost goes up somewhere are swept.
    nbase = 3 if tier == "quick" else 10
    cands = []
    for b in range(6 * nbase):
        base = runs.gen_config(rng, 900 + b, tier)
        base.update(fe="single" if b % 3 else "joint", K=3 + b % 3, m=2 + b % 3, eps=0, scale=1.0,
                    n_regimes=2 + b % 3, beta=[0.5, 2.0, 5.0, 1.0][b % 4], beta_form="float", lam=0.11,
                    lam_form="float", N=2 + b % 2, W=1 + b % 3, biased=bool(b % 2), readonly=False, fortran=False,
                    P=1, mp=False, limit=10)
        base["lens"] = [110 + 9 * b] if base["fe"] == "single" else [60, 50 + 3 * b]
        cands.append(base)
    probe = runs.run_many(cands)
    chosen = []
    for base, t in zip(cands, probe):
        if "driver_error" in t or not t["events"] or t["events"][-1]["ev"] != "return":
            continue
        costs = [float(e["out"]["cost"][2:]) for e in t["events"] if e["ev"] == "phase" and e["name"] == "relabel"
                 and str(e["out"]["cost"]).startswith("f:")]
        conv = any(e["ev"] == "converged" for e in t["events"])
        # rounds k (0-based) at which a run limited to k+1 rounds would stop with a cost above an earlier round's
        ups = [k for k in range(1, len(costs)) if costs[k] > min(costs[:k]) and not (conv and k == len(costs) - 1)]
        if ups and len(chosen) < nbase:
            chosen.append((base, ups[:3]))
    for bi, (base, ups) in enumerate(chosen):
        for k in ups:
            cfgs.append(dict(base, id=f"sweep{bi}/limit{k + 1}", limit=k + 1))
            if k >= 2:
                cfgs.append(dict(base, id=f"sweep{bi}/limit{k}", limit=k))
    return runs.run_many(cfgs)


# every regime some check declares as needed (anti-vacuity); the corpus builder keeps adding runs of the forced
# configuration types with fresh seeds until all of them have been entered, so that no VERIF_SEED can leave a
# check without its regime (which would be a machinery failure, i.e. a broken check, on the unchanged tree)
REQUIRED_REGIMES = {"converged", "limit_reached", "repopulated", "rounds_1", "rounds_2plus", "multi_series", "odd_W",
                    "series_of_exactly_W_rows", "W1", "empty_final_cluster", "vector_beta", "biased_covariance",
                    "label_switch_under_unequal_per_pair_beta", "scaled_data", "eps_floor",
                    "label_change_at_series_boundary", "equal_length_series_with_several_labels", "asymmetric_matrix_lambda_writable", "floor_below_bic_threshold", "level_far_above_spread", "non_float64_series_in_a_list",
                    "converged_after_repopulation_with_every_cluster_non_empty"}


def _entered(trs):
    seen = set()
    for t in trs:
        if "driver_error" in t or not t.get("events"):
            continue
        try:
            seen |= regimes(t)
        except Exception:                                    # pylint: disable=broad-except
            pass
    return seen


def build_complete(tier):
    trs = build(tier)
    rng = random.Random(common.seed() * 7919 + 31337)
    for attempt in range(5):
        missing = REQUIRED_REGIMES - _entered(trs)
        if not missing:
            break
        extra = []
        for i in range(35):
            c = runs.gen_config(rng, i, tier)
            c["id"] = f"topup{attempt}/{i}"
            extra.append(c)
        trs += runs.run_many(extra)
    return trs


def get(tier):
    trs = cached(f"corpus_{tier}_{common.seed()}", lambda: build_complete(tier))
    bad = [t for t in trs if "driver_error" in t]
    if bad:
        raise common.MachineryError("run driver failed: " + bad[0]["driver_error"][-1500:])
    return trs


def completed(trs):
    return [t for t in trs if t["events"] and t["events"][-1]["ev"] == "return"]


def regimes(tr):
    """Which regimes a trace entered (for the anti-vacuity accounting in the evidence)."""
    ev = tr["events"]
    hdr = tr["hdr"]
    r = set()
    last = ev[-1]
    if last["ev"] != "return":
        r.add("raised:" + last.get("type", "?"))
        return r
    r.add("completed")
    r.add(hdr["fe"])
    labels = last["modelLabels"]
    if len(hdr["lens"]) > 1:
        r.add("multi_series")
        if len(set(hdr["lens"])) == 1 and hdr["lens"][0] > hdr["W"]:
            if len(set(labels)) > 1:
                r.add("equal_length_series_with_several_labels")
    if any(e["ev"] == "converged" for e in ev):
        r.add("converged")
    else:
        r.add("limit_reached")
    if any(e["ev"] == "phase" and e["name"] == "repopulate" and not e["same_object"] for e in ev):
        r.add("repopulated")
    labels = last["modelLabels"]
    K = hdr["K"]
    if any(labels.count(k) == 0 for k in range(K)):
        r.add("empty_final_cluster")
    if hdr["cfg"].get("series_dtype") and hdr["fe"] == "joint":
        r.add("non_float64_series_in_a_list")
    if hdr["cfg"].get("offset", 0) >= 1e6:
        r.add("level_far_above_spread")
    if 0 < hdr["eps"] < 2e-5:
        r.add("floor_below_bic_threshold")
    if hdr.get("lamForm") == "matrix_asym":
        r.add("asymmetric_matrix_lambda_writable")
    if hdr["biased"]:
        r.add("biased_covariance")
    if hdr["epsPos"]:
        r.add("eps_floor")
    if hdr.get("betaForm") in ("vector", "vector_var"):
        r.add("vector_beta")
    if hdr.get("betaForm") == "vector_var":
        r.add("unequal_per_pair_beta")
        if any(a != b for a, b in zip(labels, labels[1:])):
            r.add("label_switch_under_unequal_per_pair_beta")
    if hdr["W"] % 2 == 1:
        r.add("odd_W")
    if hdr["W"] == 1:
        r.add("W1")
    if hdr["N"] == 1:
        r.add("N1")
    if any(l == hdr["W"] for l in hdr["lens"]):
        r.add("series_of_exactly_W_rows")
    if len(hdr["lens"]) > 1:
        b = 0
        for n in hdr["stackedLens"][:-1]:
            b += n
            if 0 < b < len(labels) and labels[b - 1] != labels[b]:      # (defensive: a broken build may
                r.add("label_change_at_series_boundary")                 #  return fewer labels than rows)
    if hdr["mp"] and hdr["P"] > 1:
        r.add("multi_process_pool")
    rounds = sum(1 for e in ev if e["ev"] == "round_begin")
    r.add("rounds_1" if rounds == 1 else "rounds_2plus")
    if hdr["scale"] != 1.0:
        r.add("scaled_data")
    if "converged" in r and any(e["ev"] == "phase" and e["name"] == "repopulate" and not e["same_object"]
                                and e["round"] == max(x["round"] for x in ev if x["ev"] == "round_begin") for e in ev):
        r.add("converged_in_a_round_that_began_with_repopulation")
        if all(labels.count(k) > 0 for k in range(K)):
            r.add("converged_after_repopulation_with_every_cluster_non_empty")
    return r


def failing_event(view, fl):
    """The event a CLAUSE-FAIL line points at (for the replay file)."""
    from . import tlc
    try:
        tup = tlc.parse_tuple(fl[0][2])
        e = view["events"][tup[2] - 1]
        slim = {}
        for k, v in e.items():
            sv = json.dumps(v)
            slim[k] = v if len(sv) < 600 else sv[:600] + "..."
        return {"index": tup[2], "event": slim}
    except Exception:                                        # pylint: disable=broad-except
        return {}


def validate_property(rep, pid, traces, *, need=(), shards=None):
    """Validate complete-run traces against TraceTiccLoop with Enforced = {pid}."""
    views = [runs.tlc_view(t) for t in traces]
    devs = common.known_deviations(pid)
    kd = "{" + ", ".join(f'"{d}"' for d in devs) + "}"
    accepted, failures, results = tracecheck.validate(
        "TraceTiccLoop", views, {pid}, spec="TraceSpec", shards=shards,
        extra_constants={"KnownDeviations": kd, "FixedCode": "TRUE", "Configs": "{}"})
    for r in results:
        rep.add_tlc(r)
    rep.cov["evaluations"] += sum(len(v["events"]) for v in views)
    rep.cov["traces_validated_against_impl"] += len(accepted)
    for gi, devset in sorted(tracecheck.validate.known.items()):
        for (_, dev) in sorted(devset):
            rep.known_finding(common.known_signature(dev))
            rep.regime("known_finding:" + dev)
    for gi, fl in sorted(failures.items()):
        t = traces[gi]
        rep.violation(fl[0][1], {"cfg": t["hdr"]["cfg"], "clauses": fl,
                                 "where": failing_event(views[gi], fl),
                                 "how_to_rerun": "harness.runs.traced_run(cfg) then validate with TraceTiccLoop"},
                      f"run id={t['hdr']['id']} fe={t['hdr']['fe']}")
    seen = set()
    for t in traces:
        try:
            rs = regimes(t)
        except Exception:                                    # pylint: disable=broad-except
            rs = {"regime_accounting_failed"}                # statistics only - never turn a verdict into a crash
        for r in rs:
            rep.regime(r)
            seen.add(r)
    missing = [n for n in need if n not in seen]
    if missing and not failures:
        raise common.MachineryError(f"{pid}: the corpus did not enter required regimes {missing} "
                                    f"(anti-vacuity, DESIGN 5.2)")
    return accepted, failures
