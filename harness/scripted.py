"""Scripted runs: the REAL main loop driven along label scripts taken from behaviours of the specification.

A script is (init, relabels): the labelling the initialisation yields and the labelling the relabelling step of
round r yields.  Two library functions are substituted from the harness (never in /repo): the mixture-model
initialisation returns `init`, and the likelihood table is replaced (after the real function ran, for its side
effects on the model) by a table that makes `relabels[r]` the unique minimum-cost labelling (0 on the scripted
label, -64 elsewhere, with a switching cost below 1).  Everything else - repopulation, statistics, the
optimiser and its pool, the labelling kernel, the stopping rule, result assembly - is the library's own code,
traced by the usual hooks, and the trace is validated against TraceTiccLoop like any other run.  This is the
direction specification -> implementation for the control flow of the loop (C09, C12, C13, C08, C20): TLC's
behaviours decide which sequences of labellings the real loop is taken through."""
import numpy as np

_saved = {}


def install(script, K):
    from fast_ticc import cluster_label_assignment as cla, likelihood as lk
    state = {"r": 0}
    _saved["init"] = cla.build_initial_clusters
    _saved["table"] = lk.all_points_all_clusters_log_likelihood
    orig_table = _saved["table"]

    def init(num_clusters, training_data):
        assert len(script["init"]) == training_data.shape[0]
        return [np.int64(v) for v in script["init"]]             # the element type the real function returns

    def table(model, stacked_training_data):
        orig_table(model, stacked_training_data)                 # keeps the real function's effects on the model
        rl = script["relabels"]
        L = rl[min(state["r"], len(rl) - 1)]
        state["r"] += 1
        t = np.full((len(L), K), -64.0)
        t[np.arange(len(L)), np.asarray(L, dtype=int)] = 0.0
        return t

    cla.build_initial_clusters = init
    lk.all_points_all_clusters_log_likelihood = table


def uninstall():
    if not _saved:
        return
    from fast_ticc import cluster_label_assignment as cla, likelihood as lk
    cla.build_initial_clusters = _saved.pop("init")
    lk.all_points_all_clusters_log_likelihood = _saved.pop("table")


def config(idx, T, K, limit, m, init, relabels, rng_seed=0, biased=True, P=1, mp=False):
    """A run configuration (see runs.gen_config) for one script: N = W = 1, so every fit is a 1x1 problem."""
    return {"id": idx, "fe": "single", "lens": [T], "N": 1, "W": 1, "K": K, "limit": limit, "m": m,
            "lam": 0.125, "beta": 0.5, "beta_form": "float", "lam_form": "float", "eps": 0.0, "eps_form": "float",
            "biased": biased, "P": P, "mp": mp, "scale": 1.0, "n_regimes": 2, "data_seed": 1000 + idx % 17,
            "rng_seed": rng_seed, "script": {"init": list(init), "relabels": [list(r) for r in relabels]}}
