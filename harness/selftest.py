"""Binding demonstration (DESIGN 5.2 / 12.5):
  (i)   the deliberately wrong design variants of the specifications must FAIL in TLC
        (invariants are not vacuous);
  (ii)  a recorded trace is accepted, and every corruption of one recorded field / removal of one hook
        event is rejected (the trace specification constrains more than the length);
  (iii) (--full) a catalogue of source mutants, each applied to a scratch copy OUTSIDE /repo, must be
        detected by the check of the property it breaks; harmless mutants must raise no alarm.
usage: ./check selftest [--full] [--only <substring>]"""
import concurrent.futures as cf
import copy
import json
import os
import random
import re
import shutil
import subprocess
import sys
import tempfile

from . import common, runs, tlc, tracecheck

NEGATIVE_MODELS = [
    ("MC_TiccLoop", "MC_TiccLoop_pinned.cfg", "C20_NoLeak"),
    ("Pool", "Pool_pinned.cfg", "NoWorkerLeft"),
    ("ModelHeap", "ModelHeap_raw.cfg", "Partition"),
    ("ZUpdate", "ZUpdate_asym.cfg", "SubgradientOptimal"),
    ("Boundaries", "Boundaries_shifted.cfg", "Decomposes"),
    ("ParLoop", "ParLoop_shared.cfg", "AccumulatorIndependentOfSchedule"),
    ("TiccHeap", "TiccHeap_inplace.cfg", "HInputsUntouched"),            # label setter writing into the shared list
    ("TiccHeap", "TiccHeap_inplace_alias.cfg", "not_a_step_of_LoopCore"),  # ... and the stopping rule keeping a reference
    ("MC_TiccLoop", "MC_TiccLoop_badcore.cfg", "not_a_step_of_LoopCore"),  # a wrong refinement mapping is rejected
]
ALL = {"C01", "C03", "C04", "C05", "C06", "C07", "C08", "C09", "C12", "C13", "C14", "C16", "C17", "C19", "C20"}


def negative_models():
    bad = 0
    with cf.ThreadPoolExecutor(max_workers=len(NEGATIVE_MODELS)) as ex:
        futs = [(m, c, inv, ex.submit(tlc.run, m, c, workers=2)) for m, c, inv in NEGATIVE_MODELS]
        for m, c, inv, f in futs:
            res = f.result()
            ok = res.violated == inv
            print(f"  negative model {m}/{c}: expected violation of {inv}: {'found' if ok else 'NOT FOUND (' + str(res.violated) + ')'}")
            bad += 0 if ok else 1
    return bad


def corruptions(tr):
    """(name, corrupted copy) pairs; each must be rejected."""
    out = []

    def ev_index(pred):
        for i, e in enumerate(tr["events"]):
            if pred(e):
                return i
        return None

    def variant(name, fn):
        t = copy.deepcopy(tr)
        if fn(t) is not False:
            out.append((name, t))
    i_rel = ev_index(lambda e: e["ev"] == "phase" and e["name"] == "relabel")
    i_sta = ev_index(lambda e: e["ev"] == "phase" and e["name"] == "statistics")
    i_opt = ev_index(lambda e: e["ev"] == "phase" and e["name"] == "optimize")
    i_sub = ev_index(lambda e: e["ev"] == "submit")
    i_gat = ev_index(lambda e: e["ev"] == "gather")
    i_cnv = ev_index(lambda e: e["ev"] == "converged")
    i_rb = [i for i, e in enumerate(tr["events"]) if e["ev"] == "round_begin"]
    K = tr["hdr"]["K"]

    def flip_label(t):
        L = t["events"][i_rel]["out"]["labels"]
        L[0] = (L[0] + 1) % K
    variant("relabel: one label of the output state changed (membership no longer matches)", flip_label)

    def flip_member(t):
        m = t["events"][i_sta]["out"]["members"]
        src = next(k for k in range(K) if m[k])
        m[(src + 1) % K] = sorted(m[(src + 1) % K] + [m[src].pop()])
    variant("statistics: a point moved between member lists", flip_member)
    variant("statistics: input state reported as altered",
            lambda t: t["events"][i_sta].__setitem__("in_same", False))
    variant("statistics: O1 observation bad for one cluster",
            lambda t: t["events"][i_sta]["o1"].__setitem__(0, "bad"))
    variant("submit: covariance digest differs from this round's statistics",
            lambda t: t["events"][i_sub].__setitem__("covDig", "0" * 16))
    variant("submit: lambda digest differs from the caller's",
            lambda t: t["events"][i_sub].__setitem__("lamDig", "0" * 16))
    variant("gather: theta digest not produced by any worker from the submitted covariance",
            lambda t: t["events"][i_gat].__setitem__("thetaDig", "f" * 16))
    variant("gather event removed", lambda t: t["events"].pop(i_gat))
    variant("optimize: MRF not positive definite", lambda t: t["events"][i_opt]["o2"].__setitem__(0, "bad"))
    variant("optimize: floor observation bad", lambda t: t["events"][i_opt]["o8"].__setitem__(0, "bad"))
    variant("relabel: scored against other MRFs",
            lambda t: t["events"][i_rel]["scoredMrf"].__setitem__(0, "0" * 16))
    variant("relabel: likelihood table observation bad",
            lambda t: t["events"][i_rel]["o7"].__setitem__(0, "bad"))

    def worse_labels(t):
        e = t["events"][i_rel]
        if not e.get("finite"):
            return False
        # give the kernel's labelling one gratuitous switch on the most expensive cell
        L = e["rlabels"]
        costs = e["costL"]
        p = max(range(len(L)), key=lambda i: max(c[0] for c in costs[i]))
        k = max(range(K), key=lambda j: costs[p][j][0])
        if L[p] == k:
            return False
        L[p] = k
        e["out"]["labels"] = list(L)
        mem = [[i for i, l in enumerate(L) if l == kk] for kk in range(K)]
        e["out"]["members"] = mem
    variant("relabel: returned labelling made suboptimal", worse_labels)
    if i_cnv is not None:
        variant("converged event moved one round earlier (stops before the fixed point)",
                lambda t: (t["events"].insert(i_rb[-1], t["events"].pop(i_cnv)) if len(i_rb) > 1 else False))
    variant("round_begin event removed", lambda t: t["events"].pop(i_rb[0]))
    last = len(tr["events"]) - 1

    def ret(field, fn):
        def f(t):
            fn(t["events"][last])
        return f
    variant("return: one margin label set to 0", ret("labels", lambda e: e["labelsPerSeries"][0].__setitem__(0, 0)
                                                   if tr["hdr"]["W"] > 2 else e["labelsPerSeries"][0].append(-1)))
    variant("return: MRF digests are not the last round's", ret("mrf", lambda e: e["mrfDigs"].__setitem__(0, "0" * 16)))
    variant("return: cost digest is not the last round's", ret("cost", lambda e: e.__setitem__("costDig", "f:0.0")))
    variant("return: one likelihood entry too many", ret("nAll", lambda e: e.__setitem__("nAll", e["nAll"] + 1)))
    variant("return: overall sum off by one unit of beta",
            ret("sum", lambda e: e.__setitem__("sumLL", [e["sumLL"][0] + 1, e["sumLL"][1]])))
    variant("return: caller arrays changed", ret("args", lambda e: e.__setitem__("args_same", False)))
    variant("return: a worker process still alive", ret("children", lambda e: e.__setitem__("children", 1)))
    variant("return: BIC does not match its definition", ret("bic", lambda e: e.__setitem__("bicOk", "bad")))
    variant("return: wrong number of MRFs", ret("shapes", lambda e: e["mrfShapes"].pop()))
    return out


def trace_binding():
    rng = random.Random(4242)
    c = runs.gen_config(rng, 0, "quick")
    c.update(eps=0, scale=1.0, K=3, limit=6, beta=2.0, beta_form="float", lam=0.11, lam_form="float", fe="single",
             N=2, W=3, lens=[80], m=3, n_regimes=3, P=1, mp=False, readonly=False, fortran=False)
    tr = None
    for s in range(8):                      # a run that converges after >= 2 rounds
        c["data_seed"], c["rng_seed"] = 1000 + s, 2000 + s
        t = runs.run_many([c], workers=1)[0]
        if "driver_error" in t:
            raise common.MachineryError(t["driver_error"])
        names = [e["ev"] for e in t["events"]]
        if names[-1] == "return" and "converged" in names and names.count("round_begin") >= 2:
            tr = t
            break
    if tr is None:
        raise common.MachineryError("selftest: no suitable base run")
    view = runs.tlc_view(tr)
    cases = [("unmodified trace", view)] + corruptions(view)
    acc, fail, res = tracecheck.validate("TraceTiccLoop", [v for _, v in cases], ALL, spec="TraceSpec",
                                         extra_constants={"KnownDeviations": '{"F5_scalar_centre"}', "FixedCode": "TRUE",
                                                          "Configs": "{}"})
    bad = 0
    for i, (name, _) in enumerate(cases):
        accepted = i in acc
        want = (i == 0)
        why = "" if accepted else " (" + ", ".join(f"{p}.{cl}" for p, cl, _ in fail.get(i, [])[:1]) + ")"
        ok = accepted == want
        print(f"  {'ok ' if ok else 'BAD'} {'accepted' if accepted else 'rejected'}{why}: {name}")
        bad += 0 if ok else 1
    return bad


# ---------------------------------------------------------------------------------- mutants
# (file under src/fast_ticc, python regex, replacement, properties whose check must fire ("" = harmless))
MUTANTS = [
    ("cluster_label_assignment.py", r"label_assignment_cost\[i\+1\] \+ label_switching_cost\[i\]$",
     "label_assignment_cost[i+1] + label_switching_cost[i+1]", "C01"),
    ("cluster_label_assignment.py", r"total_vals\[cluster\] - label_switching_cost\[i\]:", "total_vals[cluster]:", "C01"),
    ("cluster_label_assignment.py", r"curr_location = np.argmin\(future_cost_vals\[0, :\] \+ label_assignment_cost\[0, :\]\)",
     "curr_location = np.argmin(future_cost_vals[0, :])", "C01"),
    ("data_preparation.py", r"front_length = int\(\(window_size - 1\)/2\)", "front_length = max(int(window_size/2) - 1, 0)", "C04"),
    ("data_preparation.py", r"stacked_training_data\[i, start_column:end_column\] = data\[i\+j, :\]",
     "stacked_training_data[i, start_column:end_column] = data[min(i+j, num_data_points-2), :]", "C10"),
    ("data_preparation.py", r"template\[\[endpoint - 1 for endpoint in endpoints\]\] = 0", "template[endpoints] = 0", "C07"),
    ("main_loop.py", r"if current_iteration > 0:", "if current_iteration >= 0:", "C09"),
    ("main_loop.py", r"label_assignment_cost=current_model_state.label_assignment_cost,",
     "label_assignment_cost=current_model_state.label_assignment_cost + 0.5,", "C06"),
    ("main_loop.py", r"overall_log_likelihood_median = np.median\(all_log_likelihood\)",
     "overall_log_likelihood_median = np.sort(all_log_likelihood)[len(all_log_likelihood)//2]", "C06"),
    ("cluster_maintenance.py", r"if potential_donor_size < 3 \* min_cluster_size:", "if potential_donor_size <= 3 * min_cluster_size:", "C08"),
    ("cluster_maintenance.py", r"key=get_cluster_spread, reverse=True\)", "key=get_cluster_spread, reverse=False)", "C08"),
    ("cluster_maintenance.py", r"new_model.clusters = \[cluster.deep_copy\(\) for cluster in model.clusters\]",
     "new_model.clusters = list(model.clusters)", "C08,C13"),
    ("cluster_maintenance.py", r"bias=use_biased_covariance", "bias=False", "C12"),
    ("cluster_label_assignment.py", r"    new_model.clusters = \[cluster.deep_copy\(\) for cluster in new_model.clusters\]\n", "", "C13"),
    ("admm/solver.py", r"num_occurrences = num_blocks - block_id\n        return lambda_parameter \* num_occurrences",
     "num_occurrences = num_blocks - block_id - 1\n        return lambda_parameter * num_occurrences", "C02"),
    ("admm/solver.py", r"rho_scale = 1 / \(2\*rho\)", "rho_scale = 1 / (2*rho) if rho <= 1 else 1 / rho", "C02"),
    ("admm/solver.py", r"    return x\n\n\ndef admm_update_u", "    return z\n\n\ndef admm_update_u", "C02"),
    ("admm/solver.py", r"return np.sum\(lambda_parameter\[rows, cols\]\)", "return np.sum(lambda_parameter[rows, rows])", "C02"),
    ("graphical_lasso.py", r"small_element_indices = \(filtered < epsilon\) & \(filtered > -epsilon\)",
     "small_element_indices = (filtered <= epsilon) & (filtered >= -epsilon)", "C03"),
    ("likelihood.py", r"nw = window_size \* num_data_series", "nw = window_size", "C05"),
    ("cluster_metrics.py", r"threshold = 2e-5", "threshold = 2e-3", "C16"),
    ("cluster_metrics.py", r"if point_label != last_point_label:", "if True:", "C16"),
    ("cluster_metrics.py", r"\(len\(stacked_training_data\) - len\(model.clusters\)\) /", "(len(stacked_training_data) - 1) /", "C17"),
    ("matrix_compression.py", r"full_matrix = \(upper_tri \+ upper_tri.T\) - np.diag\(diag_temp\)",
     "full_matrix = (upper_tri + upper_tri.T) - np.diag(diag_temp) * (1 if upper_tri.shape[0] != 7 else 2)", "C11"),
    ("admm/unique_values.py", r"start_column \+ i \* block_size\n", "start_column + i * block_size if block_id < 12 else start_column\n", "C11"),
    ("front_end.py", r"data_series = list\(data_series\)\n", "data_series = list(data_series)\n    data_series[0] -= 0\n", ""),
    ("front_end.py", r"    data_series = list\(data_series\)\n", "    data_series = list(data_series)\n    data_series[-1][0, 0] += 0.0 if len(data_series) < 3 else 1e-9\n", "C19"),
    ("admm/solver.py", r"if isinstance\(lambda_parameter, numbers.Real\):", "if isinstance(lambda_parameter, float):", "C18"),
    ("main_loop.py", r"    except BaseException:\n(.*\n)*?        raise\n", "    except ZeroDivisionError:\n        raise\n", "C20"),
    # harmless changes: no check may raise an alarm
    ("cluster_label_assignment.py", r"path = \[-1\] \* num_points", "path = [-2] * num_points", ""),
    ("cluster_maintenance.py", r"LOGGER.info\(\"Need to repopulate", "LOGGER.debug(\"Need to repopulate", ""),
]
FALSE_ALARM_PROBES = ["C01", "C08", "C09", "C13", "C06"]


def run_mutant(job):
    idx, (rel, pat, repl, expect) = job
    d = tempfile.mkdtemp(prefix="mutant-")
    try:
        shutil.copytree(os.path.join(common.REPO, "src"), os.path.join(d, "src"))
        p = os.path.join(d, "src", "fast_ticc", rel)
        src = open(p).read()
        new, n = re.subn(pat, repl, src, count=1, flags=re.M)
        if n != 1:
            return idx, "PATTERN-NOT-FOUND", {}
        open(p, "w").write(new)
        env = dict(os.environ, VERIF_REPO=d, VERIF_NCPU="6")
        res = {}
        props = [x for x in expect.split(",") if x] or FALSE_ALARM_PROBES
        for pid in props:
            r = subprocess.run([os.path.join(common.VERIF, "check"), pid], env=env, capture_output=True, text=True)
            viol = sorted(set(re.findall(r"clause=(\S+)", r.stdout)))
            res[pid] = (r.returncode, viol[:3])
        return idx, "ran", res
    finally:
        shutil.rmtree(d, ignore_errors=True)


def mutants(only=None):
    jobs = [(i, m) for i, m in enumerate(MUTANTS) if not only or only in m[0] or only in m[3]]
    bad = 0
    with cf.ThreadPoolExecutor(max_workers=3) as ex:
        for idx, status, res in ex.map(run_mutant, jobs):
            rel, pat, repl, expect = MUTANTS[idx]
            if status != "ran":
                print(f"  BAD mutant {idx} ({rel}): {status}")
                bad += 1
                continue
            if expect:
                caught = [p for p, (rc, v) in res.items() if rc == 1]
                ok = bool(caught)
                print(f"  {'ok ' if ok else 'MISSED'} mutant {idx} {rel}: {repl[:60]!r} expected {expect}: "
                      + "; ".join(f"{p} rc={rc} {v}" for p, (rc, v) in res.items()))
            else:
                alarms = [p for p, (rc, v) in res.items() if rc != 0]
                ok = not alarms
                print(f"  {'ok ' if ok else 'FALSE-ALARM'} harmless mutant {idx} {rel}: {repl[:60]!r}: "
                      + "; ".join(f"{p} rc={rc}" for p, (rc, v) in res.items()))
            bad += 0 if ok else 1
    return bad


def main(argv):
    bad = 0
    print("selftest (i): wrong design variants must fail")
    bad += negative_models()
    print("selftest (ii): trace binding - corruptions must be rejected")
    bad += trace_binding()
    if "--full" in argv:
        only = argv[argv.index("--only") + 1] if "--only" in argv else None
        print("selftest (iii): source mutants on scratch copies")
        bad += mutants(only)
    print("selftest:", "ok" if not bad else f"{bad} problem(s)")
    return 0 if not bad else 2
