"""Entry point: check <Cxx> [--tier quick|thorough] [--replay path]."""
import argparse
import importlib
import os
import sys
import traceback

from . import common


def main():
    ap = argparse.ArgumentParser()
    ap.add_argument("prop")
    ap.add_argument("--tier", default=os.environ.get("VERIF_TIER", "quick"))
    ap.add_argument("--replay", default=None)
    a, rest = ap.parse_known_args()
    tier = a.tier if a.tier in ("quick", "thorough") else "quick"
    pid = a.prop.upper()
    if pid == "SELFTEST":
        from . import selftest
        common.use_repo()
        sys.exit(selftest.main(rest))
    if pid == "SETUP":
        from . import setup
        sys.exit(setup.main())
    try:
        mod = importlib.import_module(f"harness.props.{pid.lower()}")
    except ModuleNotFoundError:
        print(f"no check for {pid}", file=sys.stderr)
        sys.exit(2)
    try:
        if a.replay:
            from . import replay as _replay
            common.use_repo()
            sys.exit(_replay.replay(pid, a.replay))
        sys.exit(mod.run(tier))
    except common.MachineryError as ex:
        print(f"MACHINERY-FAILURE property={pid}: {ex}", file=sys.stderr)
        sys.exit(2)
    except Exception:
        traceback.print_exc()
        print(f"MACHINERY-FAILURE property={pid}: unexpected exception", file=sys.stderr)
        sys.exit(2)


def common_replay(mod, path):
    import json
    with open(path) as fh:
        print(json.dumps(json.load(fh), indent=1)[:4000])
    print("(replay: re-run the check; the case above is regenerated from VERIF_SEED)")
    return 0


if __name__ == "__main__":
    main()
