"""./check <Cxx> --replay <path>: re-execute the failing case stored in a replay file against the CURRENT
tree and have TLC judge it again (exit 1 + VIOLATION line if it still fails, 0 if it is now accepted)."""
import json

from . import common, runs, tracecheck, corpus


def replay(pid, path):
    with open(path) as fh:
        d = json.load(fh)
    case = d.get("case", {})
    print(f"replay {path}: property={d.get('property')} clause={d.get('clause')} {d.get('text', '')}")
    devs = common.known_deviations(pid)
    kd = "{" + ", ".join(f'"{x}"' for x in devs) + "}"
    if isinstance(case, dict) and "cfg" in case:
        plan = case.get("fault") if isinstance(case.get("fault"), dict) and case["fault"].get("kind") in ("task", "phase") else None
        tr = runs.run_many([case["cfg"]], [plan], workers=1)[0]
        if "driver_error" in tr:
            raise common.MachineryError(tr["driver_error"])
        views = [runs.tlc_view(tr)]
        acc, fail, res = tracecheck.validate("TraceTiccLoop", views, {pid}, spec="TraceSpec", shards=1,
                                             extra_constants={"KnownDeviations": kd, "FixedCode": "TRUE", "Configs": "{}"})
        return verdict(pid, path, acc, fail, corpus.failing_event(views[0], fail.get(0, [("", "", "")])))
    rec = case.get("record") if isinstance(case, dict) else None
    if rec and "cost" in rec and "beta" in rec:
        c = case.get("case")
        if c:                                     # re-run the real kernel on the stored table
            from . import modes
            from .props import c01
            r = modes.run_cases([c], case.get("mode", "jit"))[0]
            rec = c01.to_record(c, r) if "error" not in r else rec
        acc, fail, res = tracecheck.validate("TraceLabelling", [rec], {pid}, shards=1)
        return verdict(pid, path, acc, fail, rec)
    if rec and "before" in rec and "rank" in rec:
        from .props import c08
        sizes = [rec["before"].count(k) for k in range(rec["K"])]
        new = c08.build_and_run((sizes, rec["rank"], rec["m"], rec.get("seed", 0)))
        acc, fail, res = tracecheck.validate("TraceRepopulate", [new], {pid}, shards=1)
        return verdict(pid, path, acc, fail, new)
    if isinstance(case, dict) and "job" in case:
        from . import drv_admm
        j = case["job"]
        tr = drv_admm.solve((j["N"], j["W"], j["kind"], float(j["scale"]), float(j["lam"]), j["lam_form"],
                             float(j["rho"]), j["callback"], j["max_it"], j["seed"]))
        if tr["error"]:
            print("solver raised:", tr["error"])
            print(f"VIOLATION property={pid} replay={path}")
            return 1
        acc, fail, res = tracecheck.validate("TraceAdmm", [tr], {pid}, spec="TraceSpec", shards=1,
                                             extra_constants={"MaxIt": 1000, "RhoVals": "{}", "HasCallback": "FALSE"})
        return verdict(pid, path, acc, fail, tr["events"][-1])
    print(json.dumps(case, indent=1, default=str)[:3000])
    print("(no automatic re-execution for this kind of case: re-run the check; cases are regenerated from VERIF_SEED)")
    return 0


def verdict(pid, path, acc, fail, detail):
    if 0 in acc:
        print("accepted by the specification on the current tree")
        return 0
    print("still rejected:", [(p, c) for p, c, _ in fail.get(0, [])])
    print(json.dumps(detail, default=str)[:1500])
    print(f"VIOLATION property={pid} replay={path}")
    return 1
